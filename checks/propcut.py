"""Cut-points for the scaled 2-D transforms inside aotools.opticalpropagation (used by C10, C11).

Inside the propagators `fouriertransform.ft2(x, d)` / `ift2(X, df)` are replaced by their contract,
which C09 decides for the same sizes on the real functions:

    ft2(x, d)   = d^2      * D(x)        D    = centred unnormalised 2-D DFT   (linear)
    ift2(X, df) = (N df)^2 * Dinv(X)     Dinv = centred inverse DFT (1/N^2)    (linear)
    Dinv(D(x)) = x,  D(Dinv(X)) = X,  sum|D x|^2 = N^2 sum|x|^2,  sum|Dinv X|^2 = sum|X|^2 / N^2

D(x) / Dinv(X) are fresh symbolic arrays.  When the input of a D-cut is provably (solver, per element)
a uniform scalar times the raw output of an earlier Dinv-cut (or vice versa), the cut returns that scalar
times the earlier cut's input instead of a fresh array (the inverse-pair contract).
"""
from .common import numpy, z3, core, npx, Sym, St, Fr, z, obj, SA, eqs, conj


class FTCut:
    def __init__(self, ctx, name, pre, combo=None, rewrite=True, angles=None):
        self.angles = angles      # AngleAxioms instance (relations between unit pairs), optional
        self.ctx = ctx
        self.name = name
        self.pre = list(pre)
        self.calls = []
        self.combo = combo        # (cutA, alpha, cutB, beta): linear-combination mode
        self.rewrite = rewrite
        self.rewrites = 0

    def ft2(self, data, delta):
        return self._call("D", data, delta)

    def ift2(self, data, delta_f):
        return self._call("Dinv", data, delta_f)

    def _fresh(self, k, kind, shape):
        a = numpy.empty(shape, dtype=object)
        for i in numpy.ndindex(*shape):
            a[i] = core.cvar("%s.%s%d[%s]" % (self.name, kind, k, ",".join(map(str, i))))
        return a.view(SA)

    def _call(self, kind, data, delta):
        data = obj(data)
        N = data.shape[-1]
        delta = Sym.lift(delta)
        k = len(self.calls)
        raw = None
        how = "fresh"
        scale = delta * delta if kind == "D" else (delta * N) * (delta * N)
        if self.combo is not None:
            A, al, B, be = self.combo
            raw = (A.calls[k]["raw"] * al + B.calls[k]["raw"] * be).view(SA)
            how = "combo"
        elif self.rewrite:
            # same-kind call with provably equal input and spacing: same transform (functionality)
            for prev in reversed(self.calls):
                if prev["kind"] == kind and prev["data"].shape == data.shape and self._equal(data, prev["data"]) \
                        and self._lemma(conj(eqs(scale, prev["scale"]))):
                    raw = prev["raw"]
                    how = "same as call %d" % prev["k"]
                    break
        if raw is None and self.rewrite and self.combo is None:
            for prev in reversed(self.calls):
                if prev["kind"] != kind and prev["how"] == "fresh" and prev["raw"].shape == data.shape:
                    g = self._uniform_factor(data, prev["raw"])
                    if g is not None:
                        raw = (prev["data"] * g).view(SA)
                        how = "rewritten(inverse of call %d)" % prev["k"]
                        self.rewrites += 1
                        break
        if raw is None:
            raw = self._fresh(k, kind, data.shape)
        out = (raw * scale).view(SA)
        self.calls.append(dict(k=k, kind=kind, data=data, delta=delta, raw=raw, out=out, N=N, how=how, scale=scale))
        return out

    def _lemma(self, goal):
        extra = []
        if self.angles is not None:
            goal, extra = self.angles.apply(goal)
        return self.ctx.lemma(self.pre + extra, goal, timeout_ms=3000)

    def _equal(self, a, b):
        for i in numpy.ndindex(*a.shape):
            if not self._lemma(conj(eqs(a[i], b[i]))):
                return False
        return True

    def _uniform_factor(self, data, R):
        """g such that data[i] == g * R[i] for all i (each proved by the solver), else None"""
        idx0 = tuple(0 for _ in data.shape)
        r0 = R[idx0]
        d0 = Sym.lift(data[idx0])
        if d0.isconc():
            return None
        subs = [(r0.re, z3.RealVal(1)), (r0.im, z3.RealVal(0))]
        g = Sym(z3.simplify(z3.substitute(z(d0.re), *subs)), z3.simplify(z3.substitute(z(d0.im), *subs)))
        for i in numpy.ndindex(*data.shape):
            goal = conj(eqs(data[i], R[i] * g))
            if not self._lemma(goal):
                return None
        return g


def sumsq(a):
    acc = Sym(0)
    for e in numpy.asarray(a, dtype=object).flat:
        acc = acc + Sym.lift(e).abs2()
    return acc


# ------------------------------------------------------------------ relations between unit-circle pairs
class AngleAxioms:
    """Instantiates, for the unit-circle pairs recorded so far, the trigonometric identities that hold
    between them: theta_a = +-theta_b (same / conjugate pair) and theta_a + theta_b = +-theta_c (angle
    addition).  Candidates are found by evaluating the angle terms at a random rational point (exact);
    each candidate relation is then *proved* by the solver under the preconditions before its axiom is used."""

    def __init__(self, ctx, pre, params, seed=0):
        import random
        self.ctx = ctx
        self.pre = list(pre)
        self.params = [z(p.re) for p in params]
        rng = random.Random(seed)
        self.point = [(p, z3.RealVal("%d/%d" % (rng.randint(3, 40), rng.randint(3, 40)))) for p in self.params]
        self.known = -1
        self.subs = []
        self.sums = []
        self.proved = {}
        self.relations = 0

    def _fp(self, t):
        v = z3.simplify(z3.substitute(t, *self.point))
        if z3.is_rational_value(v):
            return Fr(v.numerator_as_long(), v.denominator_as_long())
        return None

    def get(self):
        """-> (substitution list for equal/conjugate pairs, list of (pair-name set, addition axiom))"""
        ang = core.angles()
        if len(ang) == self.known:
            return self.subs, self.sums
        self.known = len(ang)
        fps = [self._fp(t) for (t, c, s) in ang]
        by = {}
        for i, f in enumerate(fps):
            if f is not None:
                by.setdefault(f, []).append(i)
        n = len(ang)
        rep = {}          # index -> (representative index, sign)
        for i in range(n):
            if i in rep or fps[i] is None:
                continue
            for j in by.get(fps[i], []):
                if j > i and j not in rep and self._prove(ang[i][0] == ang[j][0], ("eq", i, j)):
                    rep[j] = (i, 1)
            for j in by.get(-fps[i], []):
                if j > i and j not in rep and self._prove(ang[i][0] == -ang[j][0], ("neg", i, j)):
                    rep[j] = (i, -1)
        subs = []
        for j, (i, sg) in rep.items():
            subs.append((ang[j][1], ang[i][1]))
            subs.append((ang[j][2], ang[i][2] if sg == 1 else -ang[i][2]))
        reps = [i for i in range(n) if i not in rep and fps[i] is not None]
        byrep = {}
        for i in reps:
            byrep.setdefault(fps[i], []).append(i)
        sums = []
        for a in range(len(reps)):
            i = reps[a]
            for b in range(a, len(reps)):
                j = reps[b]
                for sgn in (1, -1):
                    tot = fps[i] + sgn * fps[j]
                    if tot == 0:
                        continue
                    for ksign in (1, -1):
                        for k in byrep.get(ksign * tot, []):
                            if k in (i, j):
                                continue
                            ti, ci, si = ang[i]
                            tj, cj, sj = ang[j]
                            tk, ck, sk = ang[k]
                            if self._prove(ti + sgn * tj == ksign * tk, ("sum", i, j, sgn, k, ksign)):
                                names = {ci.decl().name(), cj.decl().name(), ck.decl().name()}
                                sums.append((names, z3.And(ck == ci * cj - sgn * si * sj, ksign * sk == si * cj + sgn * ci * sj)))
                                self.relations += 1
        self.subs, self.sums = subs, sums
        return subs, sums

    def _prove(self, goal, key):
        if key in self.proved:
            return self.proved[key]
        r = self.ctx.lemma(self.pre, goal, timeout_ms=3000)
        self.proved[key] = r
        return r

    def apply(self, goal):
        """goal with equal/conjugate pairs merged, plus the addition axioms touching >= 2 of its pairs"""
        subs, sums = self.get()
        if subs:
            goal = z3.substitute(goal, *subs)
        names = set()
        core._consts(goal, names)
        ax = []
        for nm, a in sums:
            if len(nm & names) >= 2:
                ax.append(a)
        # congruence of the unit pairs occurring in the goal, as implications: keeps the solver from
        # choosing parameters that make two angles coincide (or add up) while their pairs differ
        ang = [(t, c, s) for (t, c, s) in core.angles() if c.decl().name() in names]
        if len(ang) <= 8:
            for i in range(len(ang)):
                ti, ci, si = ang[i]
                ax.append(z3.Implies(ti == 0, z3.And(ci == 1, si == 0)))
                for j in range(i + 1, len(ang)):
                    tj, cj, sj = ang[j]
                    ax.append(z3.Implies(ti == tj, z3.And(ci == cj, si == sj)))
                    ax.append(z3.Implies(ti == -tj, z3.And(ci == cj, si == -sj)))
                    for k in range(len(ang)):
                        if k in (i, j):
                            continue
                        tk, ck, sk = ang[k]
                        ax.append(z3.Implies(ti + tj == tk, z3.And(ck == ci * cj - si * sj, sk == si * cj + ci * sj)))
                        ax.append(z3.Implies(ti - tj == tk, z3.And(ck == ci * cj + si * sj, sk == si * cj - ci * sj)))
        return goal, ax
