"""C13  Karhunen-Loeve modes: the part that is decidable given LAPACK's contract.

The modes are eigenvectors of kernel matrices, so nothing can be said about them without saying what `eigh` returns.
`numpy.linalg.eigh` is replaced by its CONTRACT (not by the property): for the symmetric matrix it is handed it
returns ascending eigenvalues w and a matrix V with V^T V = I and M V = V diag(w) - fresh symbols constrained by
exactly these equations.  Everything the AOtools code does around it is executed symbolically on the real code:

  gkl_fcom(ri, kernels, nfunc) with a SYMBOLIC kernel array (symmetric in its first two axes, every entry a free
  real: the structure function and its azimuthal FFT are cut away) and symbolic obscuration ri, on every path of the
  eigenvalue-order decisions (loop over azimuthal orders, argsort, pair bookkeeping):
    (1) the returned variances are in non-increasing order;
    (2) every order >= 1 function comes as a cos/sin pair: consecutive entries carrying the azimuthal indices
        2m-1 and 2m (cos and sin of m theta, in either order), equal variance, the same radial function;
    (3) nothing larger was left out: every eigenvalue of the azimuthal orders used that is not among the returned ones
        is <= the smallest returned variance;
    (4) radial orthonormality with the normalisation that makes the polar functions orthonormal over the pupil:
        (1/nr) sum_r R_i R_j = delta_ij for order 0, = 2 delta_ij for orders >= 1 (the azimuthal factor supplies 1/2);
    (5) each returned (variance, radial function) is an eigenpair of ITS kernel: fktom K_p R = var R for orders >= 1,
        and the piston-filtered relation S K_0 R = (var/fktom) S R for order 0 (S = the piston-orthogonal rows);
    (6) order-0 functions are piston free: sum_r R_i = 0, and the piston itself is never returned while positive
        eigenvalues remain;
  gkl_azimuthal: row 0 = 1, rows 2m-1 / 2m = cos / sin (m theta) on the uniform grid, mutually orthogonal with mean
  square 1/2 (mean 0);  gkl_radii: equal-area radial grid for symbolic ri;  piston_orth: orthogonal, last column
  constant, the others sum to zero.

Outside: that the kernel handed to eigh IS the azimuthal transform of the Kolmogorov structure function to a given
accuracy (a discretisation statement), positivity of the variances and "tip/tilt first" (facts about that kernel),
the Cartesian resampling (scipy.ndimage.map_coordinates).  Assumed: eigenvalues of the kernels are positive
(they are variances of a positive-definite covariance) - used only for (6).
"""
import hashlib
import sys

from .common import *  # noqa: F401,F403
from .common import numpy, z3, core, npx, harness, Sym, St, Fr, z, var, eqs, conj, all_eq, rng_for

FILES = ["aotools/functions/karhunenLoeve.py"]


def _kl():
    import aotools.functions.karhunenLoeve as kl
    return kl


# ------------------------------------------------------------------ eigh by contract
EIG = []


class EighContract(npx.LinAlg):
    @staticmethod
    def eigh(M, UPLO="L"):
        M = core.obj(M)
        n = M.shape[0]
        h = hashlib.md5("|".join(z(Sym.lift(e).re).sexpr() for e in M.flat).encode()).hexdigest()[:10]
        w = [z3.Real("eigw!%s[%d]" % (h, i)) for i in range(n)]
        V = [[z3.Real("eigv!%s[%d,%d]" % (h, i, j)) for j in range(n)] for i in range(n)]
        order = [w[i] <= w[i + 1] for i in range(n - 1)] + [w[i] > 0 for i in range(n)]
        eqn = []
        for a in range(n):
            for b in range(a, n):
                eqn.append(z3.Sum([V[r][a] * V[r][b] for r in range(n)]) == (1 if a == b else 0))
        for i in range(n):
            for k in range(n):
                eqn.append(z3.Sum([z(Sym.lift(M[i, j]).re) * V[j][k] for j in range(n)]) == w[k] * V[i][k])
        for i in range(n):
            core.define(w[i], order)
            for j in range(n):
                core.define(V[i][j], eqn)
        wa = numpy.empty(n, dtype=object)
        Va = numpy.empty((n, n), dtype=object)
        for i in range(n):
            wa[i] = Sym(w[i])
            for j in range(n):
                Va[i, j] = Sym(V[i][j])
        EIG.append(dict(M=M, w=wa, V=Va, axioms=order + eqn))
        St.notes.add("numpy.linalg.eigh by contract: ascending eigenvalues w, V^T V = I, M V = V diag(w) (fresh symbols); "
                     "eigenvalues of the kernels assumed positive")
        return wa.view(core.SA), Va.view(core.SA)


def sym_kernels(nr, nt):
    K = numpy.empty((nr, nr, nt), dtype=object)
    for i in range(nr):
        for j in range(nr):
            for p in range(nt):
                K[i, j, p] = var("k%d_%d_%d" % (min(i, j), max(i, j), p))
    return K.view(core.SA)


def piston_rows(nr):
    """oracle: the nr-1 piston-orthogonal unit vectors of Cannon's eq. 19 (rows), exact algebraic entries"""
    rows = []
    for j in range(nr - 1):
        rnm = Sym(1) / core.sym_sqrt(Sym((j + 1) * (j + 2)))
        row = [rnm if r <= j else (rnm * (-(j + 1)) if r == j + 1 else Sym(0)) for r in range(nr)]
        rows.append(row)
    return rows


# ------------------------------------------------------------------ numeric oracle for replays (real eigh)
def numeric_violations(ri, K, nfunc):
    kl = _kl()
    K = numpy.asarray(K, dtype=float)
    nr = K.shape[0]
    K = (K + K.transpose(1, 0, 2)) / 2
    try:
        evals, nord, npo, oord, rabas = kl.gkl_fcom(ri, K.copy(), nfunc)
    except IndexError:
        return None, "azimuthal orders exhausted (eigenvalues do not decrease with the order): outside"
    except Exception as e:
        return ["gkl_fcom raises %s: %s" % (type(e).__name__, e)], None
    evals, oord, rabas = numpy.asarray(evals, dtype=float), numpy.asarray(oord, dtype=int), numpy.asarray(rabas, dtype=float)
    bad = []
    F = (1.0 - ri ** 2) / nr
    tol = 1e-8 * max(1.0, float(numpy.max(numpy.abs(K))) * F)
    if len(evals) != nfunc or rabas.shape != (nr, nfunc):
        return ["shapes: %s variances, radial basis %s" % (len(evals), rabas.shape)], None
    if numpy.any(numpy.diff(evals) > tol):
        bad.append("variances not in non-increasing order: %s" % evals)
    # independent decompositions
    S = numpy.zeros((nr, nr))
    for j in range(nr - 1):
        rnm = 1.0 / numpy.sqrt((j + 1) * (j + 2))
        S[j, :j + 1] = rnm
        S[j, j + 1] = -(j + 1) * rnm
    S[nr - 1, :] = 1.0 / numpy.sqrt(nr)
    m = nr - 1
    tord = (oord + 1) // 2
    P = int(tord.max())
    spectrum = []          # (value, order, multiplicity)
    w0 = numpy.linalg.eigvalsh(F * (S.dot(K[:, :, 0]).dot(S.T))[:m, :m])
    spectrum += [(v, 0) for v in w0]
    for p in range(1, P + 1):
        spectrum += [(v, p) for v in numpy.linalg.eigvalsh(F * K[:, :, p])] * 2
    for i in range(nfunc):
        R = rabas[:, i]
        p = int(tord[i])
        if p == 0:
            if abs(R.sum()) > 1e-7 * max(1.0, numpy.abs(R).max()):
                bad.append("order-0 function %d is not piston free (sum %.3g)" % (i, R.sum()))
            lhs = S[:m].dot(K[:, :, 0]).dot(R) * F
            rhs = evals[i] * S[:m].dot(R)
            nrm = (R * R).sum() / nr
        else:
            lhs = F * K[:, :, p].dot(R)
            rhs = evals[i] * R
            nrm = (R * R).sum() / nr / 2
        if numpy.max(numpy.abs(lhs - rhs)) > 1e-6 * max(1.0, numpy.max(numpy.abs(lhs))):
            bad.append("function %d (azimuthal order %d) is not an eigenvector of its kernel for its variance" % (i, p))
        if abs(nrm - 1) > 1e-7:
            bad.append("function %d: radial normalisation %.9g instead of 1" % (i, nrm))
        for j in range(i):
            if oord[j] == oord[i] and abs((rabas[:, j] * R).sum()) / nr > 1e-7:
                bad.append("functions %d and %d (same azimuthal index) are not orthogonal" % (j, i))
    i = 0
    while i < nfunc:
        if tord[i] >= 1:
            if i + 1 < nfunc:
                if sorted((int(oord[i]), int(oord[i + 1]))) != [2 * int(tord[i]) - 1, 2 * int(tord[i])] or abs(evals[i + 1] - evals[i]) > tol or numpy.max(numpy.abs(rabas[:, i + 1] - rabas[:, i])) > 1e-9:
                    bad.append("entries %d, %d are not a cos/sin pair of one eigenvalue" % (i, i + 1))
            i += 2
        else:
            i += 1
    # completeness: the returned multiset = the nfunc largest of the spectrum of the orders used
    top = sorted((v for v, _ in spectrum), reverse=True)[:nfunc]
    if len(top) == nfunc and numpy.max(numpy.abs(numpy.sort(evals)[::-1] - numpy.array(top))) > 1e-7 * max(1.0, abs(top[0])):
        bad.append("returned variances %s are not the %d largest eigenvalues %s of the orders used" % (evals, nfunc, top))
    return bad, None


def replay_fcom(ri, Kvals, nfunc, nr, nt):
    ri = float(ri)
    if not (0.01 < ri < 0.99):
        ri = 0.3
    cands = []
    K = numpy.asarray(Kvals, dtype=float).reshape(nr, nr, nt)
    cands.append(K)
    rng = numpy.random.RandomState(12345)
    for _ in range(4):
        # generic positive-definite kernels whose eigenvalues decrease with the azimuthal order
        G = numpy.zeros((nr, nr, nt))
        for p in range(nt):
            A = rng.standard_normal((nr, nr))
            G[:, :, p] = (A.dot(A.T) + numpy.eye(nr) * 0.5) * (0.35 ** p if p else 0.6)
        cands.append(G)
    last = None
    for K in cands:
        bad, skip = numeric_violations(ri, K, nfunc)
        if bad:
            return True, dict(what="; ".join(bad[:4]), ri=ri, kernels=K, nfunc=nfunc)
        last = skip
    return False, dict(what="holds on the witness kernel and on generic positive-definite kernels", note=last)


# ------------------------------------------------------------------ gkl_fcom on symbolic kernels
def case_fcom(ctx, nr, nt, nfunc):
    kl = _kl()
    ri = var("ri")
    pre = [z(ri.re) > 0, z(ri.re) < 1]
    K = sym_kernels(nr, nt)
    ctx.encoded(kl.gkl_fcom, kl.piston_orth)
    ctx.bounds.update(nr=nr, azimuthal_orders_available=nt, nfunc=nfunc, kernels="symbolic symmetric (every entry a free real)", ri="symbolic in (0,1)")
    ctx.assume("numpy.linalg.eigh meets its contract (ascending eigenvalues, orthonormal eigenvectors); kernel eigenvalues are positive")
    proxy = npx.NP()
    proxy.linalg = EighContract()

    def go():
        del EIG[:]
        with npx.symbolic(kl, proxy=proxy):
            out = kl.gkl_fcom(ri, K, nfunc)
        return out, list(EIG)
    paths, ex = core.run_paths(go, pre, max_paths=4000)
    ctx.explored(ex, len(paths))
    kvars = [K[i, j, p] for i in range(nr) for j in range(nr) for p in range(nt)]
    rp = lambda m: replay_fcom(m(ri), [float(m(e)) for e in kvars], nfunc, nr, nt)
    ctx.fallback = rp
    fk = (1 - ri * ri) / nr
    S = piston_rows(nr)
    mm = nr - 1
    done = 0
    for pi, pth in enumerate(paths):
        hyp = pre + pth.pc
        if pth.exc is not None:
            if isinstance(pth.exc, IndexError):
                ctx.assume("paths on which the eigenvalues do not decrease with the azimuthal order (all %d available orders consumed: IndexError) are not examined" % nt)
                continue
            ctx.prove("path%d raises %s" % (pi, type(pth.exc).__name__), hyp, z3.BoolVal(False), replay=rp, axioms=False)
            continue
        (evals, nord, npo, oord, rabas), eig = pth.out
        evals = numpy.asarray(evals, dtype=object)
        rabas = numpy.asarray(rabas, dtype=object)
        oord = [int(x) for x in numpy.asarray(oord)]
        if len(evals) != nfunc or rabas.shape != (nr, nfunc) or len(oord) != nfunc:
            ctx.prove("path%d: nfunc variances and an (nr, nfunc) radial basis" % pi, hyp, z3.BoolVal(False), replay=rp, axioms=False)
            continue
        done += 1
        tord = [(o + 1) // 2 for o in oord]
        # (1) order
        ctx.prove("path%d: (1) variances in non-increasing order" % pi, hyp,
                  conj([z(Sym.lift(evals[i]).re) >= z(Sym.lift(evals[i + 1]).re) for i in range(nfunc - 1)]), replay=rp)
        # (2) pairs
        g = []
        i = 0
        while i < nfunc:
            if tord[i] >= 1:
                if i + 1 < nfunc:
                    g.append(z3.BoolVal(sorted((oord[i], oord[i + 1])) == [2 * tord[i] - 1, 2 * tord[i]]))
                    g += eqs(evals[i], evals[i + 1])
                    g += eqs(rabas[:, i], rabas[:, i + 1])
                i += 2
            else:
                i += 1
        ctx.prove("path%d: (2) orders >= 1 come as consecutive cos/sin pairs with one variance and one radial function" % pi, hyp, conj(g), replay=rp)
        # (3) completeness over the orders used (order p uses decomposition eig[p])
        P = max(tord)
        sel = {}
        for i in range(nfunc):
            sel.setdefault(tord[i], []).append(i)
        low = Sym.lift(evals[nfunc - 1])
        g = []
        for p in range(P + 1):
            w = eig[p]["w"]
            for k in range(len(w)):
                chosen = [z(Sym.lift(evals[i]).re) == z(w[k].re) for i in sel.get(p, [])]
                g.append(z3.Or(z(w[k].re) <= z(low.re), *chosen))
        ctx.prove("path%d: (3) every eigenvalue of the orders used is returned or is <= the smallest returned variance" % pi, hyp, conj(g), replay=rp, timeout_ms=60000)
        # (4) radial orthonormality
        g = []
        for i in range(nfunc):
            for j in range(i + 1):
                if oord[i] != oord[j]:
                    continue
                acc = Sym(0)
                for r in range(nr):
                    acc = acc + Sym.lift(rabas[r, i]) * Sym.lift(rabas[r, j])
                want = (nr if tord[i] == 0 else 2 * nr) if i == j else 0
                g += eqs(acc, Sym(want))
        ctx.prove("path%d: (4) radial functions orthonormal with the pupil normalisation (1/nr sum = 1 for order 0, 2 for orders >= 1)" % pi, hyp, conj(g), replay=rp, timeout_ms=120000)
        # (5) eigenpairs of their own kernel
        g = []
        for i in range(nfunc):
            R = [Sym.lift(rabas[r, i]) for r in range(nr)]
            p = tord[i]
            lam = Sym.lift(evals[i])
            if p >= 1:
                for a in range(nr):
                    acc = Sym(0)
                    for b in range(nr):
                        acc = acc + K[a, b, p] * R[b]
                    g += eqs(acc * fk, lam * R[a])
            else:
                KR = []
                for a in range(nr):
                    acc = Sym(0)
                    for b in range(nr):
                        acc = acc + K[a, b, 0] * R[b]
                    KR.append(acc)
                for srow in S:
                    lhs, rhs = Sym(0), Sym(0)
                    for a in range(nr):
                        lhs = lhs + srow[a] * KR[a]
                        rhs = rhs + srow[a] * R[a]
                    g += eqs(lhs * fk, lam * rhs)
        ctx.prove("path%d: (5) every returned (variance, radial function) is an eigenpair of the kernel of its azimuthal order" % pi, hyp, conj(g), replay=rp, timeout_ms=120000)
        # (6) piston free
        g = []
        for i in range(nfunc):
            if tord[i] == 0:
                acc = Sym(0)
                for r in range(nr):
                    acc = acc + Sym.lift(rabas[r, i])
                g += eqs(acc, Sym(0))
        if g:
            ctx.prove("path%d: (6) order-0 functions are piston free (zero mean over the equal-area rings)" % pi, hyp, conj(g), replay=rp, timeout_ms=60000)
    ctx.prove("guard: preconditions satisfiable", pre, z3.BoolVal(False), expect="sat", kind="vacuity", axioms=False)
    if not done:
        ctx.prove("guard: at least one path returns a basis", pre, z3.BoolVal(True), expect="sat", kind="vacuity", axioms=False)
    # translation validation: the symbolic run of one path against the real function on a kernel satisfying the path
    rng = numpy.random.RandomState(7)
    Kc = numpy.zeros((nr, nr, nt))
    for p in range(nt):
        A = rng.standard_normal((nr, nr))
        Kc[:, :, p] = (A.dot(A.T) + numpy.eye(nr) * 0.5) * (0.3 ** p if p else 0.5)
    bad, skip = numeric_violations(0.25, Kc, nfunc)
    ctx.validate("numeric oracle on the real gkl_fcom (generic positive-definite kernels)", [float(len(bad or []))], lambda: [0.0], tol=0.5)


# ------------------------------------------------------------------ azimuthal functions
def replay_azimuthal(nord, npp):
    kl = _kl()
    az = numpy.asarray(kl.gkl_azimuthal(nord, npp), dtype=float)
    th = numpy.arange(npp) * 2 * numpy.pi / npp
    bad = []
    for i in range(nord):
        want = numpy.ones(npp) if i == 0 else (numpy.cos((i // 2 + 1) * th) if i % 2 == 1 else numpy.sin((i // 2) * th))
        if numpy.max(numpy.abs(az[i] - want)) > 1e-12:
            bad.append("row %d is not %s" % (i, "1" if i == 0 else ("cos(%d theta)" % (i // 2 + 1) if i % 2 else "sin(%d theta)" % (i // 2))))
    G = az[:nord].dot(az[:nord].T) / npp
    want = numpy.diag([1.0] + [0.5] * (nord - 1))
    if numpy.max(numpy.abs(G - want)) > 1e-12:
        bad.append("rows are not orthogonal with mean squares (1, 1/2, 1/2, ...)")
    return bool(bad), dict(what="; ".join(bad) or "ok", nord=nord, npp=npp)


def case_azimuthal(ctx, nord, npp):
    kl = _kl()
    ctx.encoded(kl.gkl_azimuthal)
    ctx.bounds.update(nord=nord, npp=npp, note="npp > 2 * highest azimuthal order (no aliasing)")
    St.conc_trig_float = True        # cos / sin of the concrete grid angles are evaluated in floating point, as the code does
    with npx.symbolic(kl):
        az = numpy.asarray(kl.gkl_azimuthal(nord, npp), dtype=object)
    ctx.paths += 1
    rp = lambda m: replay_azimuthal(nord, npp)
    ctx.fallback = rp
    tol = Fr(1, 10 ** 11)

    def close(a, b):
        a, b = Sym.lift(a), Sym.lift(b)
        d = a - b
        if d.isconc():
            return z3.BoolVal(abs(d.re) <= tol)
        return z3.And(z(d.re) <= z3.RealVal(str(tol)), z(d.re) >= -z3.RealVal(str(tol)))
    import math
    g = []
    for i in range(nord):
        for t in range(npp):
            th = 2 * math.pi * t / npp
            want = 1.0 if i == 0 else (math.cos((i // 2 + 1) * th) if i % 2 == 1 else math.sin((i // 2) * th))
            g.append(close(az[i, t], Sym(want)))
    ctx.prove("row 0 = 1, rows 2m-1 / 2m = cos / sin(m theta) on the uniform grid (1e-11)", [], conj(g), replay=rp)
    g = []
    for i in range(nord):
        for j in range(i + 1):
            acc = Sym(0)
            for t in range(npp):
                acc = acc + Sym.lift(az[i, t]) * Sym.lift(az[j, t])
            want = 0 if i != j else (npp if i == 0 else Fr(npp, 2))
            g.append(close(acc, Sym(want)))
    ctx.prove("azimuthal functions mutually orthogonal, mean square 1 (order 0) and 1/2 (others), hence zero mean for orders >= 1 (1e-11)", [], conj(g), replay=rp)
    ctx.validate("gkl_azimuthal", evaluate(az, {}), lambda: kl.gkl_azimuthal(nord, npp), tol=1e-12)


# ------------------------------------------------------------------ radial grid, piston filter
def replay_radii(ri, nr):
    kl = _kl()
    ri = min(max(float(ri), 0.01), 0.99)
    r = numpy.asarray(kl.gkl_radii(ri, nr), dtype=float)
    d = (1 - ri ** 2) / nr
    bad = len(r) != nr or numpy.max(numpy.abs(numpy.diff(r ** 2) - d)) > 1e-12 or not (ri ** 2 < r[0] ** 2 < ri ** 2 + d) or not (r[-1] < 1)
    return bool(bad), dict(what="gkl_radii is not an equal-area grid inside the annulus", ri=ri, nr=nr, r=r)


def case_radii(ctx, nr):
    kl = _kl()
    ri = var("ri")
    pre = [z(ri.re) > 0, z(ri.re) < 1]
    ctx.encoded(kl.gkl_radii)
    ctx.bounds.update(nr=nr, ri="symbolic in (0,1)")
    with npx.symbolic(kl):
        r = numpy.asarray(kl.gkl_radii(ri, nr), dtype=object)
    ctx.paths += 1
    rp = lambda m: replay_radii(m(ri), nr)
    ctx.fallback = rp
    if r.shape != (nr,):
        ctx.prove("nr radii", pre, z3.BoolVal(False), replay=rp, axioms=False)
        return
    d = (1 - ri * ri) / nr
    g = []
    sq = [Sym.lift(e) * Sym.lift(e) for e in r]
    for k in range(nr):
        g.append(z(Sym.lift(r[k]).re) > 0)
        if k:
            g += eqs(sq[k] - sq[k - 1], d)
    g.append(z(sq[0].re) > z((ri * ri).re))
    g.append(z(sq[0].re) < z((ri * ri + d).re))
    g.append(z(sq[nr - 1].re) < 1)
    ctx.prove("radii are positive, equally spaced in r^2 by (1-ri^2)/nr (equal-area rings), one per ring, strictly inside the annulus", pre, conj(g), replay=rp, timeout_ms=60000)
    ctx.prove("guard: preconditions satisfiable", pre, z3.BoolVal(False), expect="sat", kind="vacuity", axioms=False)
    ctx.validate("gkl_radii", evaluate(r, {"ri": 0.3}), lambda: kl.gkl_radii(0.3, nr), tol=1e-12)


def replay_piston(nr):
    kl = _kl()
    s = numpy.asarray(kl.piston_orth(nr), dtype=float)
    bad = []
    if numpy.max(numpy.abs(s.T.dot(s) - numpy.eye(nr))) > 1e-12:
        bad.append("not orthogonal")
    if numpy.max(numpy.abs(s[:, nr - 1] - 1 / numpy.sqrt(nr))) > 1e-12:
        bad.append("last column is not the normalised piston")
    if nr > 1 and numpy.max(numpy.abs(s[:, :nr - 1].sum(0))) > 1e-12:
        bad.append("a non-piston column does not sum to zero")
    return bool(bad), dict(what="piston_orth(%d): %s" % (nr, "; ".join(bad) or "ok"))


def case_piston(ctx, nr):
    kl = _kl()
    ctx.encoded(kl.piston_orth)
    ctx.bounds.update(nr=nr)
    with npx.symbolic(kl):
        s = numpy.asarray(kl.piston_orth(nr), dtype=object)
    ctx.paths += 1
    rp = lambda m: replay_piston(nr)
    ctx.fallback = rp
    g = []
    for a in range(nr):
        for b in range(a + 1):
            acc = Sym(0)
            for r in range(nr):
                acc = acc + Sym.lift(s[r, a]) * Sym.lift(s[r, b])
            g += eqs(acc, Sym(1 if a == b else 0))
    ctx.prove("piston_orth is orthogonal (exact, algebraic square roots)", [], conj(g), replay=rp, timeout_ms=60000)
    g = []
    for a in range(nr - 1):
        acc = Sym(0)
        for r in range(nr):
            acc = acc + Sym.lift(s[r, a])
        g += eqs(acc, Sym(0))
    for r in range(nr):
        g += eqs(Sym.lift(s[r, nr - 1]) * Sym.lift(s[r, nr - 1]) * nr, Sym(1))
        g.append(z(Sym.lift(s[r, nr - 1]).re) > 0)
    ctx.prove("last column = 1/sqrt(nr) (piston), every other column sums to zero", [], conj(g), replay=rp, timeout_ms=60000)
    ctx.validate("piston_orth", evaluate(s, {}), lambda: kl.piston_orth(nr), tol=1e-12)


def build_cases(tier):
    cases = []
    F = [(2, 3, 2), (2, 3, 3)] if tier == "quick" else [(2, 3, 2), (2, 3, 3), (2, 4, 4), (2, 4, 3)]
    for nr, nt, nf in F:
        cases.append(("fcom/nr=%d/orders=%d/nfunc=%d" % (nr, nt, nf), case_fcom, dict(nr=nr, nt=nt, nfunc=nf)))
    for nord, npp in ([(3, 8), (5, 12)] if tier == "quick" else [(3, 8), (5, 12), (7, 16), (9, 25), (11, 40)]):
        cases.append(("azimuthal/nord=%d/npp=%d" % (nord, npp), case_azimuthal, dict(nord=nord, npp=npp)))
    for nr in ([2, 3, 5] if tier == "quick" else [2, 3, 5, 8, 12]):
        cases.append(("radii/nr=%d" % nr, case_radii, dict(nr=nr)))
    for nr in ([2, 3, 4] if tier == "quick" else [2, 3, 4, 5, 6, 8]):
        cases.append(("piston/nr=%d" % nr, case_piston, dict(nr=nr)))
    return cases


if __name__ == "__main__":
    sys.exit(harness.main("C13", build_cases, FILES))
