"""C13  Karhunen-Loeve modes: the part that is decidable given LAPACK's contract.

The modes are eigenvectors of kernel matrices, so nothing can be said about them without saying what `eigh` returns.
`numpy.linalg.eigh` is replaced by its CONTRACT (not by the property): for the symmetric matrix it is handed it
returns ascending eigenvalues w and a matrix V with V^T V = I and M V = V diag(w) - fresh symbols constrained by
exactly these equations.  Everything the AOtools code does around it is executed symbolically on the real code:

  gkl_fcom(ri, kernels, nfunc) with a SYMBOLIC kernel array (symmetric in its first two axes, every entry a free
  real: the structure function and its azimuthal FFT are cut away) and symbolic obscuration ri, on every path of the
  eigenvalue-order decisions (loop over azimuthal orders, argsort, pair bookkeeping):
    (1) the returned variances are in non-increasing order;
    (2) every order >= 1 function comes as a cos/sin pair: consecutive entries carrying the azimuthal indices
        2m-1 and 2m (cos and sin of m theta, in either order), equal variance, the same radial function;
    (3) nothing larger was left out: every eigenvalue of the azimuthal orders used that is not among the returned ones
        is <= the smallest returned variance;
    (4) radial orthonormality with the normalisation that makes the polar functions orthonormal over the pupil:
        (1/nr) sum_r R_i R_j = delta_ij for order 0, = 2 delta_ij for orders >= 1 (the azimuthal factor supplies 1/2);
    (5) each returned (variance, radial function) is an eigenpair of ITS kernel: fktom K_p R = var R for orders >= 1,
        and the piston-filtered relation S K_0 R = (var/fktom) S R for order 0 (S = the piston-orthogonal rows);
    (6) order-0 functions are piston free: sum_r R_i = 0, and the piston itself is never returned while positive
        eigenvalues remain;
  gkl_azimuthal: row 0 = 1, rows 2m-1 / 2m = cos / sin (m theta) on the uniform grid, mutually orthogonal with mean
  square 1/2 (mean 0);  gkl_radii: equal-area radial grid for symbolic ri;  piston_orth: orthogonal, last column
  constant, the others sum to zero.

Outside: that the kernel handed to eigh IS the azimuthal transform of the Kolmogorov structure function to a given
accuracy (a discretisation statement), positivity of the variances and "tip/tilt first" (facts about that kernel),
the Cartesian resampling (scipy.ndimage.map_coordinates).  Assumed: eigenvalues of the kernels are positive
(they are variances of a positive-definite covariance) - used only for (6).
"""
import hashlib
import sys

from .common import *  # noqa: F401,F403
from .common import numpy, z3, core, npx, harness, Sym, St, Fr, z, var, eqs, conj, all_eq, rng_for

FILES = ["aotools/functions/karhunenLoeve.py"]


def _kl():
    import aotools.functions.karhunenLoeve as kl
    return kl


# ------------------------------------------------------------------ eigh by contract
EIG = []


class EighContract(npx.LinAlg):
    @staticmethod
    def eigh(M, UPLO="L"):
        M = core.obj(M)
        n = M.shape[0]
        h = hashlib.md5("|".join(z(Sym.lift(e).re).sexpr() for e in M.flat).encode()).hexdigest()[:10]
        w = [z3.Real("eigw!%s[%d]" % (h, i)) for i in range(n)]
        V = [[z3.Real("eigv!%s[%d,%d]" % (h, i, j)) for j in range(n)] for i in range(n)]
        order = [w[i] <= w[i + 1] for i in range(n - 1)] + [w[i] > 0 for i in range(n)]
        eqn = []
        for a in range(n):
            for b in range(a, n):
                eqn.append(z3.Sum([V[r][a] * V[r][b] for r in range(n)]) == (1 if a == b else 0))
        for i in range(n):
            for k in range(n):
                eqn.append(z3.Sum([z(Sym.lift(M[i, j]).re) * V[j][k] for j in range(n)]) == w[k] * V[i][k])
        for i in range(n):
            core.define(w[i], order)
            for j in range(n):
                core.define(V[i][j], eqn)
        wa = numpy.empty(n, dtype=object)
        Va = numpy.empty((n, n), dtype=object)
        for i in range(n):
            wa[i] = Sym(w[i])
            for j in range(n):
                Va[i, j] = Sym(V[i][j])
        EIG.append(dict(M=M, w=wa, V=Va, axioms=order + eqn))
        St.notes.add("numpy.linalg.eigh by contract: ascending eigenvalues w, V^T V = I, M V = V diag(w) (fresh symbols); "
                     "eigenvalues of the kernels assumed positive")
        return wa.view(core.SA), Va.view(core.SA)


def sym_kernels(nr, nt):
    K = numpy.empty((nr, nr, nt), dtype=object)
    for i in range(nr):
        for j in range(nr):
            for p in range(nt):
                K[i, j, p] = var("k%d_%d_%d" % (min(i, j), max(i, j), p))
    return K.view(core.SA)


def piston_rows(nr):
    """oracle: the nr-1 piston-orthogonal unit vectors of Cannon's eq. 19 (rows), exact algebraic entries"""
    rows = []
    for j in range(nr - 1):
        rnm = Sym(1) / core.sym_sqrt(Sym((j + 1) * (j + 2)))
        row = [rnm if r <= j else (rnm * (-(j + 1)) if r == j + 1 else Sym(0)) for r in range(nr)]
        rows.append(row)
    return rows


# ------------------------------------------------------------------ numeric oracle for replays (real eigh)
def numeric_violations(ri, K, nfunc):
    kl = _kl()
    K = numpy.asarray(K, dtype=float)
    nr = K.shape[0]
    K = (K + K.transpose(1, 0, 2)) / 2
    try:
        evals, nord, npo, oord, rabas = kl.gkl_fcom(ri, K.copy(), nfunc)
    except IndexError:
        return None, "azimuthal orders exhausted (eigenvalues do not decrease with the order): outside"
    except Exception as e:
        return ["gkl_fcom raises %s: %s" % (type(e).__name__, e)], None
    evals, oord, rabas = numpy.asarray(evals, dtype=float), numpy.asarray(oord, dtype=int), numpy.asarray(rabas, dtype=float)
    bad = []
    F = (1.0 - ri ** 2) / nr
    tol = 1e-8 * max(1.0, float(numpy.max(numpy.abs(K))) * F)
    if len(evals) != nfunc or rabas.shape != (nr, nfunc):
        return ["shapes: %s variances, radial basis %s" % (len(evals), rabas.shape)], None
    if numpy.any(numpy.diff(evals) > tol):
        bad.append("variances not in non-increasing order: %s" % evals)
    # independent decompositions
    S = numpy.zeros((nr, nr))
    for j in range(nr - 1):
        rnm = 1.0 / numpy.sqrt((j + 1) * (j + 2))
        S[j, :j + 1] = rnm
        S[j, j + 1] = -(j + 1) * rnm
    S[nr - 1, :] = 1.0 / numpy.sqrt(nr)
    m = nr - 1
    tord = (oord + 1) // 2
    P = int(tord.max())
    spectrum = []          # (value, order, multiplicity)
    w0 = numpy.linalg.eigvalsh(F * (S.dot(K[:, :, 0]).dot(S.T))[:m, :m])
    spectrum += [(v, 0) for v in w0]
    for p in range(1, P + 1):
        spectrum += [(v, p) for v in numpy.linalg.eigvalsh(F * K[:, :, p])] * 2
    for i in range(nfunc):
        R = rabas[:, i]
        p = int(tord[i])
        if p == 0:
            if abs(R.sum()) > 1e-7 * max(1.0, numpy.abs(R).max()):
                bad.append("order-0 function %d is not piston free (sum %.3g)" % (i, R.sum()))
            lhs = S[:m].dot(K[:, :, 0]).dot(R) * F
            rhs = evals[i] * S[:m].dot(R)
            nrm = (R * R).sum() / nr
        else:
            lhs = F * K[:, :, p].dot(R)
            rhs = evals[i] * R
            nrm = (R * R).sum() / nr / 2
        if numpy.max(numpy.abs(lhs - rhs)) > 1e-6 * max(1.0, numpy.max(numpy.abs(lhs))):
            bad.append("function %d (azimuthal order %d) is not an eigenvector of its kernel for its variance" % (i, p))
        if abs(nrm - 1) > 1e-7:
            bad.append("function %d: radial normalisation %.9g instead of 1" % (i, nrm))
        for j in range(i):
            if oord[j] == oord[i] and abs((rabas[:, j] * R).sum()) / nr > 1e-7:
                bad.append("functions %d and %d (same azimuthal index) are not orthogonal" % (j, i))
    i = 0
    while i < nfunc:
        if tord[i] >= 1:
            if i + 1 < nfunc:
                if sorted((int(oord[i]), int(oord[i + 1]))) != [2 * int(tord[i]) - 1, 2 * int(tord[i])] or abs(evals[i + 1] - evals[i]) > tol or numpy.max(numpy.abs(rabas[:, i + 1] - rabas[:, i])) > 1e-9:
                    bad.append("entries %d, %d are not a cos/sin pair of one eigenvalue" % (i, i + 1))
            i += 2
        else:
            i += 1
    # completeness: the returned multiset = the nfunc largest of the spectrum of the orders used
    top = sorted((v for v, _ in spectrum), reverse=True)[:nfunc]
    if len(top) == nfunc and numpy.max(numpy.abs(numpy.sort(evals)[::-1] - numpy.array(top))) > 1e-7 * max(1.0, abs(top[0])):
        bad.append("returned variances %s are not the %d largest eigenvalues %s of the orders used" % (evals, nfunc, top))
    return bad, None


def replay_fcom(ri, Kvals, nfunc, nr, nt):
    ri = float(ri)
    if not (0.01 < ri < 0.99):
        ri = 0.3
    cands = []
    K = numpy.asarray(Kvals, dtype=float).reshape(nr, nr, nt)
    cands.append(K)
    rng = numpy.random.RandomState(12345)
    for _ in range(4):
        # generic positive-definite kernels whose eigenvalues decrease with the azimuthal order
        G = numpy.zeros((nr, nr, nt))
        for p in range(nt):
            A = rng.standard_normal((nr, nr))
            G[:, :, p] = (A.dot(A.T) + numpy.eye(nr) * 0.5) * (0.35 ** p if p else 0.6)
        cands.append(G)
    last = None
    for K in cands:
        bad, skip = numeric_violations(ri, K, nfunc)
        if bad:
            return True, dict(what="; ".join(bad[:4]), ri=ri, kernels=K, nfunc=nfunc)
        last = skip
    return False, dict(what="holds on the witness kernel and on generic positive-definite kernels", note=last)


# ------------------------------------------------------------------ gkl_fcom on symbolic kernels
def case_fcom(ctx, nr, nt, nfunc):
    kl = _kl()
    ri = var("ri")
    pre = [z(ri.re) > 0, z(ri.re) < 1]
    K = sym_kernels(nr, nt)
    ctx.encoded(kl.gkl_fcom, kl.piston_orth)
    ctx.bounds.update(nr=nr, azimuthal_orders_available=nt, nfunc=nfunc, kernels="symbolic symmetric (every entry a free real)", ri="symbolic in (0,1)")
    ctx.assume("numpy.linalg.eigh meets its contract (ascending eigenvalues, orthonormal eigenvectors); kernel eigenvalues are positive")
    proxy = npx.NP()
    proxy.linalg = EighContract()

    def go():
        del EIG[:]
        with npx.symbolic(kl, proxy=proxy):
            out = kl.gkl_fcom(ri, K, nfunc)
        return out, list(EIG)
    paths, ex = core.run_paths(go, pre, max_paths=4000)
    ctx.explored(ex, len(paths))
    kvars = [K[i, j, p] for i in range(nr) for j in range(nr) for p in range(nt)]
    rp = lambda m: replay_fcom(m(ri), [float(m(e)) for e in kvars], nfunc, nr, nt)
    ctx.fallback = rp
    fk = (1 - ri * ri) / nr
    S = piston_rows(nr)
    mm = nr - 1
    done = 0
    for pi, pth in enumerate(paths):
        hyp = pre + pth.pc
        if pth.exc is not None:
            if isinstance(pth.exc, IndexError):
                ctx.assume("paths on which the eigenvalues do not decrease with the azimuthal order (all %d available orders consumed: IndexError) are not examined" % nt)
                continue
            ctx.prove("path%d raises %s" % (pi, type(pth.exc).__name__), hyp, z3.BoolVal(False), replay=rp, axioms=False)
            continue
        (evals, nord, npo, oord, rabas), eig = pth.out
        evals = numpy.asarray(evals, dtype=object)
        rabas = numpy.asarray(rabas, dtype=object)
        oord = [int(x) for x in numpy.asarray(oord)]
        if len(evals) != nfunc or rabas.shape != (nr, nfunc) or len(oord) != nfunc:
            ctx.prove("path%d: nfunc variances and an (nr, nfunc) radial basis" % pi, hyp, z3.BoolVal(False), replay=rp, axioms=False)
            continue
        done += 1
        tord = [(o + 1) // 2 for o in oord]
        # (1) order
        ctx.prove("path%d: (1) variances in non-increasing order" % pi, hyp,
                  conj([z(Sym.lift(evals[i]).re) >= z(Sym.lift(evals[i + 1]).re) for i in range(nfunc - 1)]), replay=rp)
        # (2) pairs
        g = []
        i = 0
        while i < nfunc:
            if tord[i] >= 1:
                if i + 1 < nfunc:
                    g.append(z3.BoolVal(sorted((oord[i], oord[i + 1])) == [2 * tord[i] - 1, 2 * tord[i]]))
                    g += eqs(evals[i], evals[i + 1])
                    g += eqs(rabas[:, i], rabas[:, i + 1])
                i += 2
            else:
                i += 1
        ctx.prove("path%d: (2) orders >= 1 come as consecutive cos/sin pairs with one variance and one radial function" % pi, hyp, conj(g), replay=rp)
        # (3) completeness over the orders used (order p uses decomposition eig[p])
        P = max(tord)
        sel = {}
        for i in range(nfunc):
            sel.setdefault(tord[i], []).append(i)
        low = Sym.lift(evals[nfunc - 1])
        g = []
        for p in range(P + 1):
            w = eig[p]["w"]
            for k in range(len(w)):
                chosen = [z(Sym.lift(evals[i]).re) == z(w[k].re) for i in sel.get(p, [])]
                g.append(z3.Or(z(w[k].re) <= z(low.re), *chosen))
        ctx.prove("path%d: (3) every eigenvalue of the orders used is returned or is <= the smallest returned variance" % pi, hyp, conj(g), replay=rp, timeout_ms=60000)
        # (4) radial orthonormality
        g = []
        for i in range(nfunc):
            for j in range(i + 1):
                if oord[i] != oord[j]:
                    continue
                acc = Sym(0)
                for r in range(nr):
                    acc = acc + Sym.lift(rabas[r, i]) * Sym.lift(rabas[r, j])
                want = (nr if tord[i] == 0 else 2 * nr) if i == j else 0
                g += eqs(acc, Sym(want))
        ctx.prove("path%d: (4) radial functions orthonormal with the pupil normalisation (1/nr sum = 1 for order 0, 2 for orders >= 1)" % pi, hyp, conj(g), replay=rp, timeout_ms=120000)
        # (5) eigenpairs of their own kernel
        g = []
        for i in range(nfunc):
            R = [Sym.lift(rabas[r, i]) for r in range(nr)]
            p = tord[i]
            lam = Sym.lift(evals[i])
            if p >= 1:
                for a in range(nr):
                    acc = Sym(0)
                    for b in range(nr):
                        acc = acc + K[a, b, p] * R[b]
                    g += eqs(acc * fk, lam * R[a])
            else:
                KR = []
                for a in range(nr):
                    acc = Sym(0)
                    for b in range(nr):
                        acc = acc + K[a, b, 0] * R[b]
                    KR.append(acc)
                for srow in S:
                    lhs, rhs = Sym(0), Sym(0)
                    for a in range(nr):
                        lhs = lhs + srow[a] * KR[a]
                        rhs = rhs + srow[a] * R[a]
                    g += eqs(lhs * fk, lam * rhs)
        ctx.prove("path%d: (5) every returned (variance, radial function) is an eigenpair of the kernel of its azimuthal order" % pi, hyp, conj(g), replay=rp, timeout_ms=120000)
        # (6) piston free
        g = []
        for i in range(nfunc):
            if tord[i] == 0:
                acc = Sym(0)
                for r in range(nr):
                    acc = acc + Sym.lift(rabas[r, i])
                g += eqs(acc, Sym(0))
        if g:
            ctx.prove("path%d: (6) order-0 functions are piston free (zero mean over the equal-area rings)" % pi, hyp, conj(g), replay=rp, timeout_ms=60000)
    ctx.prove("guard: preconditions satisfiable", pre, z3.BoolVal(False), expect="sat", kind="vacuity", axioms=False)
    if not done:
        ctx.prove("guard: at least one path returns a basis", pre, z3.BoolVal(True), expect="sat", kind="vacuity", axioms=False)
    # translation validation: the symbolic run of one path against the real function on a kernel satisfying the path
    rng = numpy.random.RandomState(7)
    Kc = numpy.zeros((nr, nr, nt))
    for p in range(nt):
        A = rng.standard_normal((nr, nr))
        Kc[:, :, p] = (A.dot(A.T) + numpy.eye(nr) * 0.5) * (0.3 ** p if p else 0.5)
    bad, skip = numeric_violations(0.25, Kc, nfunc)
    ctx.validate("numeric oracle on the real gkl_fcom (generic positive-definite kernels)", [float(len(bad or []))], lambda: [0.0], tol=0.5)


# ------------------------------------------------------------------ azimuthal functions
def replay_azimuthal(nord, npp):
    kl = _kl()
    az = numpy.asarray(kl.gkl_azimuthal(nord, npp), dtype=float)
    th = numpy.arange(npp) * 2 * numpy.pi / npp
    bad = []
    for i in range(nord):
        want = numpy.ones(npp) if i == 0 else (numpy.cos((i // 2 + 1) * th) if i % 2 == 1 else numpy.sin((i // 2) * th))
        if numpy.max(numpy.abs(az[i] - want)) > 1e-12:
            bad.append("row %d is not %s" % (i, "1" if i == 0 else ("cos(%d theta)" % (i // 2 + 1) if i % 2 else "sin(%d theta)" % (i // 2))))
    G = az[:nord].dot(az[:nord].T) / npp
    want = numpy.diag([1.0] + [0.5] * (nord - 1))
    if numpy.max(numpy.abs(G - want)) > 1e-12:
        bad.append("rows are not orthogonal with mean squares (1, 1/2, 1/2, ...)")
    return bool(bad), dict(what="; ".join(bad) or "ok", nord=nord, npp=npp)


def case_azimuthal(ctx, nord, npp):
    kl = _kl()
    ctx.encoded(kl.gkl_azimuthal)
    ctx.bounds.update(nord=nord, npp=npp, note="npp > 2 * highest azimuthal order (no aliasing)")
    St.conc_trig_float = True        # cos / sin of the concrete grid angles are evaluated in floating point, as the code does
    with npx.symbolic(kl):
        az = numpy.asarray(kl.gkl_azimuthal(nord, npp), dtype=object)
    ctx.paths += 1
    rp = lambda m: replay_azimuthal(nord, npp)
    ctx.fallback = rp
    tol = Fr(1, 10 ** 11)

    def close(a, b):
        a, b = Sym.lift(a), Sym.lift(b)
        d = a - b
        if d.isconc():
            return z3.BoolVal(abs(d.re) <= tol)
        return z3.And(z(d.re) <= z3.RealVal(str(tol)), z(d.re) >= -z3.RealVal(str(tol)))
    import math
    g = []
    for i in range(nord):
        for t in range(npp):
            th = 2 * math.pi * t / npp
            want = 1.0 if i == 0 else (math.cos((i // 2 + 1) * th) if i % 2 == 1 else math.sin((i // 2) * th))
            g.append(close(az[i, t], Sym(want)))
    ctx.prove("row 0 = 1, rows 2m-1 / 2m = cos / sin(m theta) on the uniform grid (1e-11)", [], conj(g), replay=rp)
    g = []
    for i in range(nord):
        for j in range(i + 1):
            acc = Sym(0)
            for t in range(npp):
                acc = acc + Sym.lift(az[i, t]) * Sym.lift(az[j, t])
            want = 0 if i != j else (npp if i == 0 else Fr(npp, 2))
            g.append(close(acc, Sym(want)))
    ctx.prove("azimuthal functions mutually orthogonal, mean square 1 (order 0) and 1/2 (others), hence zero mean for orders >= 1 (1e-11)", [], conj(g), replay=rp)
    ctx.validate("gkl_azimuthal", evaluate(az, {}), lambda: kl.gkl_azimuthal(nord, npp), tol=1e-12)


# ------------------------------------------------------------------ radial grid, piston filter
def replay_radii(ri, nr):
    kl = _kl()
    ri = min(max(float(ri), 0.01), 0.99)
    r = numpy.asarray(kl.gkl_radii(ri, nr), dtype=float)
    d = (1 - ri ** 2) / nr
    bad = len(r) != nr or numpy.max(numpy.abs(numpy.diff(r ** 2) - d)) > 1e-12 or not (ri ** 2 < r[0] ** 2 < ri ** 2 + d) or not (r[-1] < 1)
    return bool(bad), dict(what="gkl_radii is not an equal-area grid inside the annulus", ri=ri, nr=nr, r=r)


def case_radii(ctx, nr):
    kl = _kl()
    ri = var("ri")
    pre = [z(ri.re) > 0, z(ri.re) < 1]
    ctx.encoded(kl.gkl_radii)
    ctx.bounds.update(nr=nr, ri="symbolic in (0,1)")
    with npx.symbolic(kl):
        r = numpy.asarray(kl.gkl_radii(ri, nr), dtype=object)
    ctx.paths += 1
    rp = lambda m: replay_radii(m(ri), nr)
    ctx.fallback = rp
    if r.shape != (nr,):
        ctx.prove("nr radii", pre, z3.BoolVal(False), replay=rp, axioms=False)
        return
    d = (1 - ri * ri) / nr
    g = []
    sq = [Sym.lift(e) * Sym.lift(e) for e in r]
    for k in range(nr):
        g.append(z(Sym.lift(r[k]).re) > 0)
        if k:
            g += eqs(sq[k] - sq[k - 1], d)
    g.append(z(sq[0].re) > z((ri * ri).re))
    g.append(z(sq[0].re) < z((ri * ri + d).re))
    g.append(z(sq[nr - 1].re) < 1)
    ctx.prove("radii are positive, equally spaced in r^2 by (1-ri^2)/nr (equal-area rings), one per ring, strictly inside the annulus", pre, conj(g), replay=rp, timeout_ms=60000)
    ctx.prove("guard: preconditions satisfiable", pre, z3.BoolVal(False), expect="sat", kind="vacuity", axioms=False)
    ctx.validate("gkl_radii", evaluate(r, {"ri": 0.3}), lambda: kl.gkl_radii(0.3, nr), tol=1e-12)


def replay_piston(nr):
    kl = _kl()
    s = numpy.asarray(kl.piston_orth(nr), dtype=float)
    bad = []
    if numpy.max(numpy.abs(s.T.dot(s) - numpy.eye(nr))) > 1e-12:
        bad.append("not orthogonal")
    if numpy.max(numpy.abs(s[:, nr - 1] - 1 / numpy.sqrt(nr))) > 1e-12:
        bad.append("last column is not the normalised piston")
    if nr > 1 and numpy.max(numpy.abs(s[:, :nr - 1].sum(0))) > 1e-12:
        bad.append("a non-piston column does not sum to zero")
    return bool(bad), dict(what="piston_orth(%d): %s" % (nr, "; ".join(bad) or "ok"))


def case_piston(ctx, nr):
    kl = _kl()
    ctx.encoded(kl.piston_orth)
    ctx.bounds.update(nr=nr)
    with npx.symbolic(kl):
        s = numpy.asarray(kl.piston_orth(nr), dtype=object)
    ctx.paths += 1
    rp = lambda m: replay_piston(nr)
    ctx.fallback = rp
    g = []
    for a in range(nr):
        for b in range(a + 1):
            acc = Sym(0)
            for r in range(nr):
                acc = acc + Sym.lift(s[r, a]) * Sym.lift(s[r, b])
            g += eqs(acc, Sym(1 if a == b else 0))
    ctx.prove("piston_orth is orthogonal (exact, algebraic square roots)", [], conj(g), replay=rp, timeout_ms=60000)
    g = []
    for a in range(nr - 1):
        acc = Sym(0)
        for r in range(nr):
            acc = acc + Sym.lift(s[r, a])
        g += eqs(acc, Sym(0))
    for r in range(nr):
        g += eqs(Sym.lift(s[r, nr - 1]) * Sym.lift(s[r, nr - 1]) * nr, Sym(1))
        g.append(z(Sym.lift(s[r, nr - 1]).re) > 0)
    ctx.prove("last column = 1/sqrt(nr) (piston), every other column sums to zero", [], conj(g), replay=rp, timeout_ms=60000)
    ctx.validate("piston_orth", evaluate(s, {}), lambda: kl.piston_orth(nr), tol=1e-12)


# ------------------------------------------------------------------ Cartesian geometry (pcgeom) and masking (pol2car)
def _pix(ncp, ncmar):
    """pixel-centre coordinates in pupil radii, written independently: x_j = (j - (ncp-1)/2) / ((ncp - 2 ncmar)/2),
    rows are y; one IEEE division per coordinate, and r^2 = x*x + y*y in double precision (the values the real code
    compares with ri^2 - an exact-rational r^2 would differ from it in the last bit and move the annulus edge)"""
    import math
    half = (ncp - 2 * ncmar) / 2.0
    c = [(j - (ncp - 1) / 2.0) / half for j in range(ncp)]
    r2 = [[c[j] * c[j] + c[i] * c[i] for j in range(ncp)] for i in range(ncp)]
    th = [[(math.atan2(c[i], c[j]) + 2 * math.pi) % (2 * math.pi) for j in range(ncp)] for i in range(ncp)]
    return c, r2, th


def _numeric_pcgeom(kl, nr, npp, ncp, ri, ncmar):
    import math
    g = kl.pcgeom(nr, npp, ncp, ri, ncmar)
    c, r2, th = _pix(ncp, ncmar)
    bad = []
    ap, cr, cp = numpy.asarray(g["ap"]), numpy.asarray(g["cr"], dtype=float), numpy.asarray(g["cp"], dtype=float)
    if ap.shape != (ncp, ncp) or cr.shape != (ncp, ncp) or cp.shape != (ncp, ncp):
        return True, dict(what="pcgeom: shapes", ap=ap.shape, cr=cr.shape, cp=cp.shape)
    for i in range(ncp):
        for j in range(ncp):
            ins = (r2[i][j] >= ri ** 2) and (r2[i][j] <= 1.0)
            if bool(ap[i, j]) != ins:
                bad.append("ap[%d,%d]=%s but pixel centre r^2=%.6g, ri^2=%.6g" % (i, j, bool(ap[i, j]), r2[i][j], ri ** 2))
            wr = min(max((r2[i][j] - ri ** 2) / (1 - ri ** 2) * nr, 1e-3), nr - 1.001)
            if abs(cr[i, j] - wr) > 1e-9:
                bad.append("cr[%d,%d]=%.9g, radial index of the pixel centre in the equal-area grid is %.9g" % (i, j, cr[i, j], wr))
            wp = min(max(npp * th[i][j] / (2 * math.pi), 1e-3), npp - 1.001)
            if abs(cp[i, j] - wp) > 1e-9:
                bad.append("cp[%d,%d]=%.9g, azimuthal index of the pixel centre is %.9g" % (i, j, cp[i, j], wp))
    return bool(bad), dict(what="pcgeom(nr=%d, npp=%d, ncp=%d, ri=%r, ncmar=%d): %s" % (nr, npp, ncp, ri, ncmar, "; ".join(bad[:4]) or "ok"))


def replay_pcgeom(ri, nr, npp, ncp, ncmar):
    kl = _kl()
    ri = min(max(float(ri), 1e-6), 1 - 1e-6)
    return _numeric_pcgeom(kl, nr, npp, ncp, ri, ncmar)


def case_pcgeom(ctx, nr, npp, ncp, ncmar):
    """pcgeom for a SYMBOLIC obscuration ri: aperture = annulus indicator of the pixel centres, (cr, cp) = the pixel
    centre's index in the polar grid (equal-area radial grid r_k^2 = ri^2 + k (1-ri^2)/nr of radii(), uniform angles),
    clipped into the grid.  setpincs (Cartesian -> polar squares; not used by make_kl) is cut away."""
    import math
    kl = _kl()
    ri = var("ri")
    pre = [z(ri.re) > 0, z(ri.re) < 1]
    ctx.encoded(kl.pcgeom, kl.radii, kl.polang, kl.rebin)
    ctx.bounds.update(nr=nr, npp=npp, ncp=ncp, ncmar=ncmar, ri="symbolic in (0,1)")
    St.notes.add("pcgeom: setpincs cut away (returns nothing; its outputs are not used by make_kl / pol2car)")

    def go():
        with npx.symbolic(kl):
            orig = kl.setpincs
            kl.setpincs = lambda ax, ay, px, py, ri: (None, None, None)
            try:
                return kl.pcgeom(nr, npp, ncp, ri, ncmar)
            finally:
                kl.setpincs = orig
    paths, ex = core.run_paths(go, pre, max_paths=400)
    ctx.explored(ex, len(paths))
    rp = lambda m: replay_pcgeom(m(ri), nr, npp, ncp, ncmar)
    ctx.fallback = rp
    names = dict(ri=ri)
    c, r2, th = _pix(ncp, ncmar)
    ri2 = z((ri * ri).re)
    lo, hi = Fr(1e-3), Fr(nr - 1.001)
    plo, phi = 1e-3, npp - 1.001
    for pi, p in enumerate(paths):
        if p.exc is not None:
            ctx.prove("path%d raises %s" % (pi, type(p.exc).__name__), pre + p.pc, z3.BoolVal(False), replay=rp, witness_terms=names, axioms=False)
            continue
        g = p.out
        try:
            ap = numpy.asarray(g["ap"], dtype=object)
            cr = numpy.asarray(g["cr"], dtype=object)
            cp = numpy.asarray(g["cp"], dtype=object)
            ok = ap.shape == cr.shape == cp.shape == (ncp, ncp)
        except Exception:
            ok = False
        if not ok:
            ctx.prove("path%d: geometry arrays are ncp x ncp" % pi, pre + p.pc, z3.BoolVal(False), replay=rp, witness_terms=names, axioms=False)
            continue
        la, lr, lp = [], [], []
        for i in range(ncp):
            for j in range(ncp):
                R2 = z3.RealVal(str(Fr(r2[i][j])))
                ins = z3.And(R2 >= ri2, R2 <= 1)
                a = Sym.lift(ap[i, j])
                if a.isconc():
                    la.append(ins if a.re != 0 else z3.Not(ins))
                else:
                    la.append(z3.BoolVal(False))
                v = (R2 - ri2) / (1 - ri2) * nr
                want = z3.If(v < z3.RealVal(str(lo)), z3.RealVal(str(lo)), z3.If(v > z3.RealVal(str(hi)), z3.RealVal(str(hi)), v))
                lr.append(z(Sym.lift(cr[i, j]).re) == want)
                w = Sym.lift(cp[i, j])
                wp = min(max(npp * th[i][j] / (2 * math.pi), plo), phi)
                lp.append(z3.BoolVal(bool(w.isconc() and abs(float(w.re) - wp) < 1e-9)))
        ctx.prove("path%d: aperture = indicator of pixel centres with ri^2 <= r^2 <= 1 (centred grid, pupil radius = (ncp - 2 ncmar)/2 pixels)" % pi,
                  pre + p.pc, conj(la), replay=rp, witness_terms=names)
        ctx.prove("path%d: cr = radial index of each pixel centre in the equal-area grid, clipped to [1e-3, nr-1.001]" % pi,
                  pre + p.pc, conj(lr), replay=rp, witness_terms=names, timeout_ms=60000)
        ctx.prove("path%d: cp = azimuthal index npp*theta/2pi of each pixel centre (independent of ri), clipped to [1e-3, npp-1.001]" % pi,
                  pre + p.pc, conj(lp), replay=rp, witness_terms=names, axioms=False)
    ctx.prove("guard: preconditions satisfiable", pre, z3.BoolVal(False), expect="sat", kind="vacuity", axioms=False)
    with npx.symbolic(kl):
        orig = kl.setpincs
        kl.setpincs = lambda ax, ay, px, py, ri: (None, None, None)
        try:
            g = kl.pcgeom(nr, npp, ncp, 0.3, ncmar)
        finally:
            kl.setpincs = orig
    ctx.validate("pcgeom cr", evaluate(g["cr"], {}), lambda: kl.pcgeom(nr, npp, ncp, 0.3, ncmar)["cr"], tol=1e-12)
    ctx.validate("pcgeom ap", evaluate(numpy.asarray(g["ap"], dtype=object), {}), lambda: kl.pcgeom(nr, npp, ncp, 0.3, ncmar)["ap"].astype(float), tol=0)


def replay_pol2car(ri, nr, npp, ncp):
    kl = _kl()
    ri = min(max(float(ri), 1e-6), 1 - 1e-6)
    g = kl.pcgeom(nr, npp, ncp, ri, 0)
    rs = numpy.random.RandomState(5)
    pol = rs.standard_normal((nr, npp)) + 3.0
    keep = pol.copy()
    m = numpy.asarray(kl.pol2car(g, pol, mask=True), dtype=float)
    u = numpy.asarray(kl.pol2car(g, pol, mask=False), dtype=float)
    c, r2, th = _pix(ncp, 0)
    bad = []
    for i in range(ncp):
        for j in range(ncp):
            ins = (r2[i][j] >= ri ** 2) and (r2[i][j] <= 1.0)
            if not ins and m[i, j] != 0:
                bad.append("masked mode is %.4g at pixel (%d,%d) outside the annulus" % (m[i, j], i, j))
            if ins and abs(m[i, j] - u[i, j]) > 1e-12:
                bad.append("masked mode differs from the unmasked one at pixel (%d,%d) inside the annulus" % (i, j))
    if not numpy.array_equal(pol, keep):
        bad.append("pol2car modified the polar array")
    return bool(bad), dict(what="pol2car(nr=%d, npp=%d, ncp=%d, ri=%r): %s" % (nr, npp, ncp, ri, "; ".join(bad[:4]) or "ok"))


def case_pol2car(ctx, nr, npp, ncp):
    """pol2car with the resampler (scipy.ndimage.map_coordinates) replaced by an uninterpreted one (a fresh real per
    pixel, the same for the masked and the unmasked call): masked = resampled inside the annulus, exactly 0 outside;
    unmasked = resampled everywhere; the resampler is asked for the (cr, cp) of pcgeom, order 1, the polar array given."""
    kl = _kl()
    ri = var("ri")
    pre = [z(ri.re) > 0, z(ri.re) < 1]
    ctx.encoded(kl.pol2car, kl.pcgeom)
    ctx.bounds.update(nr=nr, npp=npp, ncp=ncp, ncmar=0, ri="symbolic in (0,1)", polar_array="symbolic nr x npp")
    St.notes.add("scipy.ndimage.map_coordinates uninterpreted (a fresh real per output pixel; arguments recorded); setpincs cut away")
    pol = numpy.empty((nr, npp), dtype=object)
    for a in range(nr):
        for b in range(npp):
            pol[a, b] = var("pol%d_%d" % (a, b))
    pol = pol.view(core.SA)
    calls = []

    def mc(inp, coords, *a, **k):
        calls.append((inp, coords, a, k))
        out = numpy.empty((ncp, ncp), dtype=object)
        for i in range(ncp):
            for j in range(ncp):
                out[i, j] = var("res%d_%d" % (i, j))
        return out.view(core.SA)

    def go():
        del calls[:]
        with npx.symbolic(kl):
            o1, o2 = kl.setpincs, kl.map_coordinates
            kl.setpincs = lambda ax, ay, px, py, ri: (None, None, None)
            kl.map_coordinates = mc
            try:
                g = kl.pcgeom(nr, npp, ncp, ri, 0)
                m = kl.pol2car(g, pol, mask=True)
                u = kl.pol2car(g, pol, mask=False)
                return g, numpy.asarray(m, dtype=object), numpy.asarray(u, dtype=object), list(calls)
            finally:
                kl.setpincs, kl.map_coordinates = o1, o2
    paths, ex = core.run_paths(go, pre, max_paths=400)
    ctx.explored(ex, len(paths))
    rp = lambda m: replay_pol2car(m(ri), nr, npp, ncp)
    ctx.fallback = rp
    names = dict(ri=ri)
    c, r2, th = _pix(ncp, 0)
    ri2 = z((ri * ri).re)
    for pi, p in enumerate(paths):
        if p.exc is not None:
            ctx.prove("path%d raises %s" % (pi, type(p.exc).__name__), pre + p.pc, z3.BoolVal(False), replay=rp, witness_terms=names, axioms=False)
            continue
        g, m, u, cl = p.out
        shape_ok = m.shape == (ncp, ncp) and u.shape == (ncp, ncp) and len(cl) == 2
        if shape_ok:
            for (inp, coords, a, k) in cl:
                if inp is not pol or len(coords) != 2 or coords[0] is not g["cr"] or coords[1] is not g["cp"] or k.get("order", 3) != 1:
                    shape_ok = False
        if not shape_ok:
            ctx.prove("path%d: resampler asked for (cr, cp) of the geometry, order 1, on the polar array; outputs ncp x ncp" % pi, pre + p.pc,
                      z3.BoolVal(False), replay=rp, witness_terms=names, axioms=False)
            continue
        lm, lu = [], []
        for i in range(ncp):
            for j in range(ncp):
                R2 = z3.RealVal(str(Fr(r2[i][j])))
                ins = z3.And(R2 >= ri2, R2 <= 1)
                res = z(var("res%d_%d" % (i, j)).re)
                mv = Sym.lift(m[i, j])
                lm.append(z3.If(ins, z(mv.re) == res, z(mv.re) == 0))
                lm.append(z(mv.im) == 0) if hasattr(mv, "im") and not isinstance(mv.im, (int, float)) else None
                lu.append(z(Sym.lift(u[i, j]).re) == res)
        lm = [x for x in lm if x is not None]
        ctx.prove("path%d: masked mode = resampled value inside the annulus, exactly 0 at every pixel outside it" % pi, pre + p.pc, conj(lm),
                  replay=rp, witness_terms=names)
        ctx.prove("path%d: unmasked mode = resampled value at every pixel" % pi, pre + p.pc, conj(lu), replay=rp, witness_terms=names)
    ctx.prove("guard: preconditions satisfiable", pre, z3.BoolVal(False), expect="sat", kind="vacuity", axioms=False)


def build_cases(tier):
    cases = []
    F = [(2, 3, 2), (2, 3, 3)] if tier == "quick" else [(2, 3, 2), (2, 3, 3), (2, 4, 4), (2, 4, 3)]
    for nr, nt, nf in F:
        cases.append(("fcom/nr=%d/orders=%d/nfunc=%d" % (nr, nt, nf), case_fcom, dict(nr=nr, nt=nt, nfunc=nf)))
    for nord, npp in ([(3, 8), (5, 12)] if tier == "quick" else [(3, 8), (5, 12), (7, 16), (9, 25), (11, 40)]):
        cases.append(("azimuthal/nord=%d/npp=%d" % (nord, npp), case_azimuthal, dict(nord=nord, npp=npp)))
    for nr in ([2, 3, 5] if tier == "quick" else [2, 3, 5, 8, 12]):
        cases.append(("radii/nr=%d" % nr, case_radii, dict(nr=nr)))
    for nr in ([2, 3, 4] if tier == "quick" else [2, 3, 4, 5, 6, 8]):
        cases.append(("piston/nr=%d" % nr, case_piston, dict(nr=nr)))
    G = [(2, 6, 4, 0), (2, 6, 5, 0), (3, 8, 6, 1)] if tier == "quick" else [(2, 6, 4, 0), (2, 6, 5, 0), (3, 8, 6, 1), (3, 8, 7, 0), (2, 6, 7, 1), (4, 10, 8, 0), (3, 8, 9, 2)]
    for nr, npp, ncp, ncmar in G:
        cases.append(("pcgeom/nr=%d/npp=%d/ncp=%d/ncmar=%d" % (nr, npp, ncp, ncmar), case_pcgeom, dict(nr=nr, npp=npp, ncp=ncp, ncmar=ncmar)))
    for nr, npp, ncp in ([(2, 6, 4), (2, 6, 5)] if tier == "quick" else [(2, 6, 4), (2, 6, 5), (3, 8, 6), (3, 8, 7)]):
        cases.append(("pol2car/nr=%d/npp=%d/ncp=%d" % (nr, npp, ncp), case_pol2car, dict(nr=nr, npp=npp, ncp=ncp)))
    return cases


if __name__ == "__main__":
    sys.exit(harness.main("C13", build_cases, FILES))
