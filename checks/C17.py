"""C17  Atmospheric and photometric conversions are mutually inverse and scale right.

Real functions executed symbolically: everything in aotools.turbulence.atmos_conversions and
aotools.astronomy._astronomy.  Rational powers are algebraic (y^q = x^p, y>0); 10**x and log10 are
uninterpreted with the instantiated axioms log10(10^a)=a and 10^(a+k)=10^a*10^k for integer k.
Decimal float literals (0.423, 0.98, -0.4, 2.5 ...) are read at their decimal value (<= 1 ulp).
"""
import sys

from .common import *  # noqa: F401,F403
from .common import numpy, z3, core, npx, harness, Sym, St, Fr, z, var, symarr, eqs, conj, all_eq

FILES = ["aotools/turbulence/atmos_conversions.py", "aotools/astronomy/_astronomy.py"]


def _mods():
    import aotools.turbulence.atmos_conversions as ac
    import aotools.astronomy._astronomy as astro
    return ac, astro


def pos(*vs):
    return [z(v.re) > 0 for v in vs]


def kpow(k, p, q):
    """k ** (p/q) as an algebraic Sym"""
    return core.rat_pow(k, Fr(p, q))


def close(a, b, rel=Fr(1, 10 ** 12)):
    a, b = Sym.lift(a), Sym.lift(b)
    d = z(a.re) - z(b.re)
    return z3.And(d <= z(rel) * z3.If(z(b.re) >= 0, z(b.re), -z(b.re)), -d <= z(rel) * z3.If(z(b.re) >= 0, z(b.re), -z(b.re)))


# ------------------------------------------------------------------ concrete replay helpers
def _rel(a, b):
    a = numpy.asarray(a, dtype=float)
    b = numpy.asarray(b, dtype=float)
    return float(numpy.max(numpy.abs(a - b) / numpy.maximum(1e-300, numpy.abs(b))))


def replay_pair(fname, gname, x, lam):
    ac, _ = _mods()
    f, g = getattr(ac, fname), getattr(ac, gname)
    y = g(f(x, lam), lam)
    e = _rel(y, x)
    return e > 1e-9, dict(what="%s(%s(x)) != x" % (gname, fname), x=x, lamda=lam, got=float(y), rel_err=e)


def replay_scaling(fname, x, lam, k, which, p, q):
    ac, _ = _mods()
    f = getattr(ac, fname)
    if which == "lam":
        a, b = f(x, lam * k), f(x, lam) * k ** (p / q)
    else:
        a, b = f(x * k, lam), f(x, lam) * k ** (p / q)
    e = _rel(a, b)
    return e > 1e-9, dict(what="%s scaling in %s with exponent %d/%d" % (fname, which, p, q), x=x, lamda=lam, k=k, got=float(a), want=float(b))


# ------------------------------------------------------------------ cases
def case_pairs(ctx):
    ac, _ = _mods()
    St.snap_literals = True
    ctx.assume("decimal float literals read at their decimal value (difference <= 1 ulp, outside the claim)")
    x, lam, k = var("x"), var("lam"), var("k")
    pre = pos(x, lam, k)
    pairs = [("cn2_to_r0", "r0_to_cn2"), ("r0_to_cn2", "cn2_to_r0"), ("r0_to_seeing", "seeing_to_r0"),
             ("seeing_to_r0", "r0_to_seeing"), ("cn2_to_seeing", "seeing_to_cn2"), ("seeing_to_cn2", "cn2_to_seeing")]
    ctx.fallback = lambda m: replay_pair("cn2_to_r0", "r0_to_cn2", 1e-17, 5e-7)

    def explored(fn):
        """every path of the converters (a guard on the VALUE of an argument forks)"""
        def go():
            with npx.symbolic(ac):
                return fn()
        paths, ex = core.run_paths(go, pre, max_paths=32)
        ctx.explored(ex, len(paths))
        return paths
    for f, g in pairs:
        ctx.encoded(getattr(ac, f), getattr(ac, g))
        rp = lambda m, f=f, g=g: replay_pair(f, g, m(x), m(lam))
        for pi, pth in enumerate(explored(lambda f=f, g=g: getattr(ac, g)(getattr(ac, f)(x, lam), lam))):
            tag = "" if pi == 0 else " [path%d]" % pi
            if pth.exc is not None:
                ctx.prove("%s(%s(x,lam),lam) raises %s%s" % (g, f, type(pth.exc).__name__, tag), pre + pth.pc, z3.BoolVal(False), replay=rp, witness_terms=dict(x=x, lam=lam), axioms=False)
                continue
            ctx.prove("%s(%s(x,lam),lam)=x%s" % (g, f, tag), pre + pth.pc, all_eq(pth.out, x), replay=rp, witness_terms=dict(x=x, lam=lam))
    # default wavelength is the same for both members of a pair
    for f, g in pairs:
        rp = lambda m, f=f, g=g: replay_pair(f, g, m(x), 500e-9)
        for pi, pth in enumerate(explored(lambda f=f, g=g: getattr(ac, g)(getattr(ac, f)(x)))):
            tag = "" if pi == 0 else " [path%d]" % pi
            if pth.exc is not None:
                continue
            ctx.prove("%s(%s(x))=x at the default wavelength%s" % (g, f, tag), pre + pth.pc, all_eq(pth.out, x), replay=rp, witness_terms=dict(x=x))
    with npx.symbolic(ac):
        # composites equal the composition of the elementary converters
        ctx.prove("cn2_to_seeing = r0_to_seeing o cn2_to_r0", pre,
                  all_eq(ac.cn2_to_seeing(x, lam), ac.r0_to_seeing(ac.cn2_to_r0(x, lam), lam)),
                  replay=lambda m: _replay_comp("cn2_to_seeing", "cn2_to_r0", "r0_to_seeing", m(x), m(lam)), witness_terms=dict(x=x, lam=lam))
        ctx.prove("seeing_to_cn2 = r0_to_cn2 o seeing_to_r0", pre,
                  all_eq(ac.seeing_to_cn2(x, lam), ac.r0_to_cn2(ac.seeing_to_r0(x, lam), lam)),
                  replay=lambda m: _replay_comp("seeing_to_cn2", "seeing_to_r0", "r0_to_cn2", m(x), m(lam)), witness_terms=dict(x=x, lam=lam))
        # scaling laws
        for f, which, p, q in [("cn2_to_r0", "lam", 6, 5), ("cn2_to_r0", "x", -3, 5), ("cn2_to_seeing", "lam", -1, 5),
                               ("r0_to_seeing", "lam", 1, 1), ("r0_to_seeing", "x", -1, 1), ("r0_to_cn2", "x", -5, 3),
                               ("seeing_to_cn2", "lam", 1, 3)]:
            fn = getattr(ac, f)
            if which == "lam":
                lhs, rhs = fn(x, lam * k), fn(x, lam) * kpow(k, p, q)
            else:
                lhs, rhs = fn(x * k, lam), fn(x, lam) * kpow(k, p, q)
            ctx.prove("%s scales as %s^(%d/%d)" % (f, which, p, q), pre, all_eq(lhs, rhs), timeout_ms=60000,
                      replay=lambda m, f=f, which=which, p=p, q=q: replay_scaling(f, m(x), m(lam), m(k), which, p, q),
                      witness_terms=dict(x=x, lam=lam, k=k))
        # sensitivity: a wrong exponent must be refutable
        ctx.prove("guard: r0 ~ lam^(7/5) is refutable", pre, all_eq(ac.cn2_to_r0(x, lam * k), ac.cn2_to_r0(x, lam) * kpow(k, 7, 5)),
                  expect="sat", kind="sensitivity", timeout_ms=60000)
    ctx.prove("guard: preconditions satisfiable", pre, z3.BoolVal(False), expect="sat", kind="vacuity", axioms=False)
    # translation validation
    ev = {"x": 0.37, "lam": 7.5e-7}
    for f in ("cn2_to_r0", "r0_to_cn2", "r0_to_seeing", "seeing_to_r0", "cn2_to_seeing", "seeing_to_cn2"):
        with npx.symbolic(ac):
            s = getattr(ac, f)(x, lam)
        ctx.validate(f, evaluate(s, ev), getattr(ac, f)(0.37, 7.5e-7))
    ctx.paths += 1


def _replay_comp(comp, f, g, x, lam):
    ac, _ = _mods()
    a = getattr(ac, comp)(x, lam)
    b = getattr(ac, g)(getattr(ac, f)(x, lam), lam)
    e = _rel(a, b)
    return e > 1e-9, dict(what="%s != %s o %s" % (comp, g, f), x=x, lamda=lam, composite=float(a), composition=float(b))


def case_slopes(ctx):
    ac, _ = _mods()
    St.snap_literals = True
    lam, d, r0, k = var("lam"), var("d"), var("r0"), var("k")
    pre = pos(lam, d, r0, k)
    ctx.encoded(ac.r0_from_slopes, ac.slope_variance_from_r0)
    with npx.symbolic(ac):
        v = ac.slope_variance_from_r0(r0, lam, d)
        for nfr in (2, 3):
            S = symarr("S", (1, 1, nfr))
            var_S = S.var(axis=-1)[0, 0]
            r = ac.r0_from_slopes(S, lam, d)
            pre2 = pre + [z(var_S.re) > 0]
            ctx.prove("slope_variance_from_r0(r0_from_slopes(S)) = var(S) (%d frames)" % nfr, pre2,
                      all_eq(ac.slope_variance_from_r0(r, lam, d), var_S), timeout_ms=60000,
                      replay=lambda m, S=S: _replay_slopes(m(S), m(lam), m(d)), witness_terms=dict(lam=lam, d=d))
        ctx.prove("slope variance scales as r0^(-5/3)", pre, all_eq(ac.slope_variance_from_r0(r0 * k, lam, d), v * kpow(k, -5, 3)),
                  timeout_ms=60000, replay=lambda m: (False, {}))
        ctx.prove("slope variance scales as lambda^2", pre, all_eq(ac.slope_variance_from_r0(r0, lam * k, d), v * k * k),
                  replay=lambda m: (False, {}))
        ctx.prove("slope variance scales as d^(-1/3)", pre, all_eq(ac.slope_variance_from_r0(r0, lam, d * k), v * kpow(k, -1, 3)),
                  timeout_ms=60000, replay=lambda m: (False, {}))
    ctx.paths += 1


def _replay_slopes(S, lam, d):
    ac, _ = _mods()
    S = numpy.asarray(S, dtype=float)
    r = ac.r0_from_slopes(S, lam, d)
    v = ac.slope_variance_from_r0(r, lam, d)
    want = S.var(axis=-1)[0, 0]
    e = _rel(v, want)
    return e > 1e-9, dict(what="slope variance round trip", slopes=S, got=float(v), want=float(want))


def case_profiles_single(ctx):
    """single layer: isoplanatic angle = C r0/h, coherence time = C r0/v with |C-0.314| < 1e-3"""
    ac, _ = _mods()
    St.snap_literals = True
    c, h, lam = var("c"), var("h"), var("lam")
    pre = pos(c, h, lam)
    ctx.encoded(ac.isoplanaticAngle, ac.coherenceTime, ac.cn2_to_r0)
    with npx.symbolic(ac):
        cn2 = core.obj(numpy.array([c], dtype=object))
        hh = core.obj(numpy.array([h], dtype=object))
        iso = ac.isoplanaticAngle(cn2, hh, lam)
        tau = ac.coherenceTime(cn2, hh, lam)
        r0 = ac.cn2_to_r0(c, lam)
    iso_rad = iso * numpy.pi / (180. * 3600.)
    lo, hi = Fr(313, 1000), Fr(315, 1000)
    for name, val in (("isoplanaticAngle", iso_rad), ("coherenceTime", tau)):
        C = Sym.lift(val * h / r0)
        goal = z3.And(z(C.re) > z(lo), z(C.re) < z(hi))
        ctx.prove("%s(single layer) = C*r0/h with 0.313 < C < 0.315" % name, pre, goal, timeout_ms=120000,
                  replay=lambda m, name=name: _replay_single(name, m(c), m(h), m(lam)), witness_terms=dict(c=c, h=h, lam=lam))
    # a single layer handed over as 0-d arrays (any rank): the same numbers as the length-1 profile
    for name in ("isoplanaticAngle", "coherenceTime", "rytov_variance"):
        f = getattr(ac, name)
        ctx.encoded(f)
        try:
            with npx.symbolic(ac):
                one = f(core.obj(numpy.array([c], dtype=object)), core.obj(numpy.array([h], dtype=object)), lam)
                zero_d = f(core.obj(numpy.array(c, dtype=object)), core.obj(numpy.array(h, dtype=object)), lam)
        except Exception as e:
            if harness._encoding_limit(e):
                raise
            ctx.assume("%s rejects 0-d profiles (%s): not examined" % (name, type(e).__name__))
            continue
        ctx.prove("%s: a 0-d single layer gives the same number as the length-1 profile" % name, pre, conj(eqs(zero_d, one)), timeout_ms=60000,
                  replay=lambda m, name=name: _replay_zero_d(name, m(c), m(h), m(lam)), witness_terms=dict(c=c, h=h, lam=lam))
    ctx.paths += 1


def _replay_zero_d(name, c, h, lam):
    ac, _ = _mods()
    f = getattr(ac, name)
    c, h, lam = abs(float(c)) or 1e-13, abs(float(h)) or 5000.0, abs(float(lam)) or 5e-7
    a = float(f(numpy.array([c]), numpy.array([h]), lam))
    try:
        b = float(f(numpy.array(c), numpy.array(h), lam))
    except Exception:
        return False, dict(what="0-d profiles are rejected")
    return not numpy.isclose(a, b, rtol=1e-9), dict(what="%s: 0-d single layer %r, length-1 profile %r" % (name, b, a), c=c, h=h, lam=lam)


def _replay_single(name, c, h, lam):
    ac, _ = _mods()
    f = getattr(ac, name)
    val = f(numpy.array([c]), numpy.array([h]), lam)
    if name == "isoplanaticAngle":
        val = val * numpy.pi / (180. * 3600.)
    C = float(val * h / ac.cn2_to_r0(c, lam))
    return not (0.313 < C < 0.315), dict(what=name + " single-layer constant", C=C, c=c, h=h, lam=lam)


def case_axis(ctx, shape):
    """integration axis argument = looping over profiles"""
    ac, _ = _mods()
    St.snap_literals = True
    lam = var("lam")
    cn2 = symarr("cn2", shape)
    h = symarr("h", shape)
    pre = pos(lam) + [z(e.re) > 0 for e in cn2.flat] + [z(e.re) > 0 for e in h.flat]
    ctx.bounds.update(profile_shape=list(shape), axes="all")
    for fn in ("isoplanaticAngle", "coherenceTime", "rytov_variance"):
        f = getattr(ac, fn)
        ctx.encoded(f)
        for axis in list(range(-len(shape), len(shape))) + [None]:
            with npx.symbolic(ac):
                full = f(cn2.copy(), h.copy(), lam, axis=axis) if axis is not None else f(cn2.copy(), h.copy(), lam)
                ax = -1 if axis is None else axis
                moved_c = numpy.moveaxis(cn2, ax, -1)
                moved_h = numpy.moveaxis(h, ax, -1)
                loop = numpy.empty(moved_c.shape[:-1], dtype=object)
                for idx in numpy.ndindex(*moved_c.shape[:-1]):
                    loop[idx] = f(moved_c[idx].copy(), moved_h[idx].copy(), lam)
            if numpy.shape(full) != loop.shape:
                goal = z3.BoolVal(False)
            else:
                goal = all_eq(full, loop)
            if axis in (0, None):
                with npx.symbolic(ac):
                    c2, h2 = cn2.copy(), h.copy()          # one pair of arrays used for two successive calls
                    first = f(c2, h2, lam, axis=axis) if axis is not None else f(c2, h2, lam)
                    again = f(c2, h2, lam, axis=axis) if axis is not None else f(c2, h2, lam)
                ctx.prove("%s axis=%s: a second call with the same arrays returns the same numbers" % (fn, axis), pre,
                          all_eq(again, first) if numpy.shape(again) == numpy.shape(first) else z3.BoolVal(False), timeout_ms=10000,
                          replay=lambda m, fn=fn, axis=axis: _replay_again(fn, _mm(m, cn2), _mm(m, h), _ms(m, lam), axis), witness_terms=dict(lam=lam),
                          replay_on_unknown=True)
            ctx.prove("%s axis=%s equals the loop over profiles" % (fn, axis), pre, goal, timeout_ms=60000,
                      replay=lambda m, fn=fn, axis=axis: _replay_axis(fn, m(cn2), m(h), m(lam), axis),
                      witness_terms=dict(lam=lam))
    ctx.paths += 1


def _replay_axis(fn, cn2, h, lam, axis):
    ac, _ = _mods()
    f = getattr(ac, fn)
    cn2 = numpy.abs(numpy.asarray(cn2, dtype=float)) + 1e-3
    h = numpy.abs(numpy.asarray(h, dtype=float)) + 1e-3
    full = f(cn2, h, lam, axis=axis) if axis is not None else f(cn2, h, lam)
    ax = -1 if axis is None else axis
    mc, mh = numpy.moveaxis(cn2, ax, -1), numpy.moveaxis(h, ax, -1)
    loop = numpy.empty(mc.shape[:-1])
    for idx in numpy.ndindex(*mc.shape[:-1]):
        loop[idx] = f(mc[idx], mh[idx], lam)
    bad = numpy.shape(full) != loop.shape or _rel(full, loop) > 1e-9
    return bad, dict(what="%s(axis=%s) differs from looping over profiles" % (fn, axis), cn2=cn2, h=h, lam=lam,
                     got=numpy.asarray(full), want=loop)


def _mm(m, arr):
    try:
        return m(arr)
    except Exception:
        return rand_real(rng_for("c17again"), numpy.shape(arr), 1, 9, 4.0)


def _ms(m, s):
    try:
        return m(s)
    except Exception:
        return 5e-7


def _replay_again(fn, cn2, h, lam, axis):
    ac, _ = _mods()
    f = getattr(ac, fn)
    cn2 = numpy.abs(numpy.asarray(cn2, dtype=float)) + 1e-3
    h = numpy.abs(numpy.asarray(h, dtype=float)) + 1e-3
    kw = {} if axis is None else dict(axis=axis)
    a = numpy.array(f(cn2, h, lam, **kw))
    b = numpy.array(f(cn2, h, lam, **kw))
    return bool(numpy.shape(a) != numpy.shape(b) or _rel(b, a) > 1e-12), dict(what="%s: second call with the same arrays differs" % fn, first=a, second=b)


def _exp_axioms(terms):
    """instantiate log10(10^a) = a and 10^(a) = 10^(b) * 10^(a-b) for constant integer a-b on the apps that occur"""
    apps = {}
    logs = {}

    def walk(e, seen):
        if e.get_id() in seen:
            return
        seen.add(e.get_id())
        if z3.is_app(e):
            n = e.decl().name()
            if n.startswith("exp_b10"):
                apps[e.get_id()] = e
            if n == "log10":
                logs[e.get_id()] = e
            for c in e.children():
                walk(c, seen)
    seen = set()
    for t in terms:
        walk(t, seen)
    ax = []
    apps = list(apps.values())
    for E in apps:
        ax.append(E > 0)
        ax.append(core.uf("log10", 1)(E) == E.arg(0))
    for i, E1 in enumerate(apps):
        for E2 in apps[i + 1:]:
            d = z3.simplify(E1.arg(0) - E2.arg(0))
            if z3.is_rational_value(d) and d.denominator_as_long() == 1:
                k = d.numerator_as_long()
                ax.append(E1 == E2 * (z3.RealVal(10) ** k if k >= 0 else 1 / z3.RealVal(10 ** (-k))))
    return ax


def case_photometry(ctx, band):
    _, astro = _mods()
    St.snap_literals = True
    m_, f_, k, t, ps = var("mag"), var("flux"), var("k"), var("t"), var("ps")
    mask = symarr("mask", (1, 2))
    pre = pos(f_, k, t, ps) + [z(e.re) >= 0 for e in mask.flat]
    St.split_pre = list(pre)     # value-dependent branches in the code are decided under these (every obligation below that runs such code has them)
    ctx.encoded(astro.magnitude_to_flux, astro.flux_to_magnitude, astro.photons_per_band, astro.photons_per_mag)
    ctx.bounds.update(band=band, mask="1x2 symbolic non-negative (any transmission, not only 0/1)")
    ctx.assume("10**x and log10 uninterpreted; axioms log10(10^a)=a, 10^a>0, 10^(a+k)=10^a*10^k (k integer constant) instantiated on occurring terms")
    with npx.symbolic(astro):
        fl = astro.magnitude_to_flux(m_, band)
        back = astro.flux_to_magnitude(fl, band)
        ax = _exp_axioms([z(back.re), z(fl.re)])
        ctx.prove("flux_to_magnitude(magnitude_to_flux(m)) = m", ax, all_eq(back, m_),
                  replay=lambda mm: _replay_mag(band, mm(m_)), witness_terms=dict(mag=m_))
        fl5 = astro.magnitude_to_flux(m_ + 5, band)
        ax = _exp_axioms([z(fl5.re), z(fl.re)])
        ctx.prove("five magnitudes = factor 100 in flux", ax, all_eq(fl5 * 100, fl),
                  replay=lambda mm: _replay_5mag(band, mm(m_)), witness_terms=dict(mag=m_))
        # magnitude_to_flux(flux_to_magnitude(F)) = F : needs 10^(log10 y) = y, instantiated
        mg = astro.flux_to_magnitude(f_, band)
        fb = astro.magnitude_to_flux(mg, band)
        ax2 = []
        seen = set()

        def walk(e):
            if e.get_id() in seen:
                return
            seen.add(e.get_id())
            if z3.is_app(e) and e.decl().name().startswith("exp_b10"):
                a = e.arg(0)
                if z3.is_app(a) and a.decl().name() == "log10":
                    ax2.append(z3.Implies(a.arg(0) > 0, e == a.arg(0)))     # 10^(log10 y) = y for y > 0
            for c in e.children():
                walk(c)
        walk(z(fb.re))
        ctx.prove("magnitude_to_flux(flux_to_magnitude(F)) = F", pre + ax2, all_eq(fb, f_),
                  replay=lambda mm: _replay_flux(band, mm(f_)), witness_terms=dict(flux=f_))
        # proportionality to exposure time and collecting area
        rp_prop = lambda mm: _replay_prop(band, mm(m_), numpy.asarray(mm(mask), dtype=float), mm(ps), mm(t), mm(k))
        p1 = astro.photons_per_band(m_, mask, ps, t, band)
        p2 = astro.photons_per_band(m_, mask, ps, t * k, band)
        ctx.prove("photons_per_band proportional to exposure time", pre, all_eq(p2, p1 * k), replay=rp_prop)
        p3 = astro.photons_per_band(m_, mask * k, ps, t, band)
        ctx.prove("photons_per_band proportional to collecting area (mask)", pre, all_eq(p3, p1 * k), replay=rp_prop)
        p4 = astro.photons_per_band(m_, mask, ps * k, t, band)
        ctx.prove("photons_per_band proportional to pixel area", pre, all_eq(p4, p1 * k * k), replay=rp_prop)
        if band == "V":
            wb = var("wb")
            q1 = astro.photons_per_mag(m_, mask, ps, wb, t)
            ctx.encoded(astro.photons_per_mag)
            ctx.prove("photons_per_mag proportional to exposure time", pre, all_eq(astro.photons_per_mag(m_, mask, ps, wb, t * k), q1 * k), replay=lambda mm: (False, {}))
            ctx.prove("photons_per_mag proportional to collecting area", pre, all_eq(astro.photons_per_mag(m_, mask * k, ps, wb, t), q1 * k), replay=lambda mm: (False, {}))
            q5 = astro.photons_per_mag(m_ + 5, mask, ps, wb, t)
            ax = _exp_axioms([z(q5.re), z(q1.re)])
            ctx.prove("photons_per_mag: five magnitudes = factor 100", ax, all_eq(q5 * 100, q1), replay=lambda mm: (False, {}))
    ctx.validate("magnitude_to_flux[%s]" % band, evaluate(fl, {"mag": 7.25}, {"exp_b10": lambda x: 10.0 ** x}),
                 astro.magnitude_to_flux(7.25, band))
    ctx.paths += 1


def _logs(a):
    out = []
    seen = set()

    def w(e):
        if e.get_id() in seen:
            return
        seen.add(e.get_id())
        if z3.is_app(e) and e.decl().name() == "log10":
            out.append(e)
        for c in e.children():
            w(c)
    w(a)
    return out


def _replay_mag(band, m):
    _, astro = _mods()
    b = astro.flux_to_magnitude(astro.magnitude_to_flux(m, band), band)
    return abs(b - m) > 1e-9 * max(1.0, abs(m)), dict(what="flux_to_magnitude(magnitude_to_flux(m)) != m", band=band, m=m, got=b)


def _replay_5mag(band, m):
    _, astro = _mods()
    a, b = astro.magnitude_to_flux(m, band), astro.magnitude_to_flux(m + 5, band)
    return abs(a / b - 100.0) > 1e-7, dict(what="5 mag != factor 100", band=band, m=m, ratio=a / b)


def _replay_prop(band, mag, mask, ps, t, k):
    _, astro = _mods()
    mask = numpy.abs(numpy.asarray(mask, dtype=float))
    ps, t, k = abs(ps) + 1e-3, abs(t) + 1e-3, abs(k) + 1e-3
    mag = min(max(float(mag), -5.0), 25.0)
    bad = []
    for msk in (mask, mask * 0.5 + 0.25, numpy.array([[0.5, 1.0]]) * (1 + mask)):
        p = astro.photons_per_band(mag, msk, ps, t, band)
        tol = 1e-9 * max(abs(p), 1e-300)
        if abs(astro.photons_per_band(mag, msk, ps, t * k, band) - k * p) > tol * max(1, k):
            bad.append("exposure time")
        if abs(astro.photons_per_band(mag, msk * k, ps, t, band) - k * p) > tol * max(1, k):
            bad.append("collecting area (mask scaled by %g, mask %s)" % (k, msk.tolist()))
        if abs(astro.photons_per_band(mag, msk, ps * k, t, band) - k * k * p) > tol * max(1, k * k):
            bad.append("pixel area")
        # additivity of the collecting area: a mask of two pixels collects the sum of the two one-pixel masks
        a = astro.photons_per_band(mag, msk * numpy.array([[1.0, 0.0]]), ps, t, band) + astro.photons_per_band(mag, msk * numpy.array([[0.0, 1.0]]), ps, t, band)
        if abs(a - p) > tol:
            bad.append("additivity over mask pixels")
    return bool(bad), dict(what="photons_per_band not proportional to: %s" % ", ".join(sorted(set(bad))), band=band, mag=mag, mask=mask, ps=ps, t=t, k=k)


def _replay_flux(band, f):
    _, astro = _mods()
    f = abs(f) + 1e-3
    b = astro.magnitude_to_flux(astro.flux_to_magnitude(f, band), band)
    return abs(b - f) > 1e-9 * f, dict(what="magnitude_to_flux(flux_to_magnitude(F)) != F", band=band, F=f, got=b)


def build_cases(tier):
    _, astro = _mods()
    cases = [("pairs", case_pairs, {}), ("slopes", case_slopes, {}), ("single-layer", case_profiles_single, {})]
    shapes = [(2,), (2, 3), (2, 2)] if tier == "quick" else [(2,), (3,), (2, 3), (3, 2), (2, 2), (2, 2, 2), (2, 3, 2)]
    for sh in shapes:
        cases.append(("axis/shape=%s" % "x".join(map(str, sh)), case_axis, dict(shape=sh)))
    for band in astro.FLUX_DICTIONARY:
        cases.append(("photometry/band=%s" % band, case_photometry, dict(band=band)))
    return cases


if __name__ == "__main__":
    sys.exit(harness.main("C17", build_cases, FILES))
