"""C07  FFT phase screens have exactly the discretised von Karman statistics.

The real ft_phase_screen / phasescreen.ift2 / ft_sh_phase_screen run symbolically with r0, L0, l0, delta
symbolic and the Gaussian draws injected through the `seed` argument (a Generator whose normal() hands out
arrays chosen by the harness).  numpy.fft = exact DFT; exp = uninterpreted (keyed by its canonical argument);
the 11/6 power uninterpreted, the r0 powers algebraic.
Decided: (a) the screen is linear and homogeneous in the draws (=> zero mean); (b) with the unit-draw responses
U_k obtained from the real code, sum_k U_k(p) U_k(q) equals the inverse DFT sum of the modified von Karman
spectrum on the code's frequency grid with DC removed; (c) variance independent of position; (d) amplitude scales
as r0^(-5/6) for fixed draws; (e) sub-harmonic variant: total = high + low, low part has zero mean over the grid,
is linear in its own draws, and reads draws DISJOINT from the high-frequency ones for every kind of seed
(Generator, integer, None) - so structure functions add.
Outside: convergence to the analytic structure function as the grid is refined, "closer at large separations".
"""
import sys

from .common import *  # noqa: F401,F403
from .common import numpy, z3, core, npx, harness, Sym, St, Fr, z, var, symarr, eqs, conj, all_eq

FILES = ["aotools/turbulence/phasescreen.py"]


def _ps():
    import aotools.turbulence.phasescreen as ps
    return ps


class Gen(npx.Stream):
    """a Generator whose normal() returns the arrays prepared by the harness, in order"""

    def __init__(self, arrays):
        npx.Stream.__init__(self, z3.Real("stream!harness"))
        self.arrays = list(arrays)
        self.k = 0
        self.requests = []

    def normal(self, loc=0.0, scale=1.0, size=None):
        """the prepared arrays are one stream of consecutive draws: a request of any shape takes the next prod(shape)
        values (NumPy's Generator fills a block request with consecutive draws)"""
        self.requests.append(size)
        shape = () if size is None else ((size,) if isinstance(size, (int, numpy.integer)) else tuple(int(x) for x in size))
        if not hasattr(self, "flat"):
            self.flat = [e for a in self.arrays for e in numpy.asarray(a, dtype=object).flat]
        n = int(numpy.prod(shape)) if shape else 1
        vals = self.flat[self.k:self.k + n]
        assert len(vals) == n, ("more draws requested than prepared", self.k, n, len(self.flat))
        self.k += n
        out = numpy.empty(n, dtype=object)
        for i, v in enumerate(vals):
            out[i] = Sym.lift(v) * scale + loc if (scale != 1.0 or loc != 0.0) else v
        return core.obj(out.reshape(shape)) if shape else out[0]

    def standard_normal(self, size=None, dtype=None, out=None):
        return self.normal(size=size)


P = dict(r0=var("r0"), L0=var("L0"), l0=var("l0"), delta=var("delta"))
PRE = [z(v.re) > 0 for v in P.values()]


def run_ft(N, draws_re, draws_im, r0=None):
    ps = _ps()
    g = Gen([draws_re, draws_im])
    with npx.symbolic(ps):
        out = ps.ft_phase_screen(P["r0"] if r0 is None else r0, N, P["delta"], P["L0"], P["l0"], seed=g)
    return numpy.asarray(out, dtype=object), g


def oracle_cov(N):
    """sum over the code's frequency grid (DC removed) of P(f) del_f^2 cos(2 pi f.(x_p - x_q))"""
    r0, L0, l0, delta = P["r0"], P["L0"], P["l0"], P["delta"]
    del_f = 1 / (delta * N)
    fm = Sym(5.92) / l0 / (Sym(2) * numpy.pi)
    f0 = 1 / L0
    c = N // 2
    Pm = {}
    for m1 in range(N):
        for m2 in range(N):
            if m1 == c and m2 == c:
                Pm[(m1, m2)] = Sym(0)
                continue
            fy = del_f * (m1 - c)
            fx = del_f * (m2 - c)
            f = core.sym_sqrt(fx * fx + fy * fy)
            Pm[(m1, m2)] = Sym(0.023) * r0 ** Fr(-5, 3) * core.sym_exp(-((f / fm) ** 2)) / ((f ** 2 + f0 ** 2) ** Fr(11, 6))
    cov = {}
    for n1 in range(N):
        for n2 in range(N):
            for q1 in range(N):
                for q2 in range(N):
                    acc = Sym(0)
                    for (m1, m2), pm in Pm.items():
                        k = (m1 - c) * (n1 - q1) + (m2 - c) * (n2 - q2)
                        acc = acc + pm * del_f * del_f * npx.twiddle(N, k).real
                    cov[((n1, n2), (q1, q2))] = acc
    return cov


# ------------------------------------------------------------------ replay on the real code
def real_jacobian(N, vals, sh=False):
    ps = _ps()

    class G(numpy.random.Generator):
        def __init__(self, arrays):
            super().__init__(numpy.random.PCG64(1))
            self.arrays = list(arrays)
            self.k = 0

        def normal(self, loc=0.0, scale=1.0, size=None):
            shape = () if size is None else ((size,) if isinstance(size, (int, numpy.integer)) else tuple(int(x) for x in size))
            if not hasattr(self, "flat"):
                self.flat = numpy.concatenate([numpy.asarray(a, dtype=float).ravel() for a in self.arrays])
            n = int(numpy.prod(shape)) if shape else 1
            v = self.flat[self.k:self.k + n]
            self.k += n
            return v.reshape(shape) * scale + loc if shape else float(v[0]) * scale + loc

        def standard_normal(self, size=None, dtype=None, out=None):
            return self.normal(size=size)
    shapes = [(N, N), (N, N)]
    cols = []
    for which in range(2):
        for i in range(N):
            for j in range(N):
                arrs = [numpy.zeros(s) for s in shapes]
                arrs[which][i, j] = 1.0
                cols.append(numpy.asarray(ps.ft_phase_screen(vals["r0"], N, vals["delta"], vals["L0"], vals["l0"], seed=G(arrs))).ravel())
    return numpy.array(cols).T


def replay_cov(N, vals):
    J = real_jacobian(N, vals)
    C = J.dot(J.T)
    del_f = 1.0 / (N * vals["delta"])
    fx = numpy.arange(-N / 2., N / 2.) * del_f
    FX, FY = numpy.meshgrid(fx, fx)
    f = numpy.sqrt(FX ** 2 + FY ** 2)
    fm = 5.92 / vals["l0"] / (2 * numpy.pi)
    Pm = 0.023 * vals["r0"] ** (-5. / 3) * numpy.exp(-(f / fm) ** 2) / (f ** 2 + (1. / vals["L0"]) ** 2) ** (11. / 6)
    Pm[N // 2, N // 2] = 0
    c = N // 2
    E = numpy.zeros((N * N, N * N))
    idx = [(a, b) for a in range(N) for b in range(N)]
    for pi_, (n1, n2) in enumerate(idx):
        for qi, (q1, q2) in enumerate(idx):
            m = numpy.arange(N) - c
            ph = 2 * numpy.pi * (m[:, None] * (n1 - q1) + m[None, :] * (n2 - q2)) / N
            E[pi_, qi] = float(numpy.sum(Pm * del_f ** 2 * numpy.cos(ph)))
    err = float(numpy.max(numpy.abs(C - E))) / max(float(numpy.max(numpy.abs(E))), 1e-300)
    return (not numpy.isfinite(err)) or err > 1e-7, dict(what="ensemble covariance J J^T differs from the inverse DFT sum of the modified von Karman spectrum",
                                                         N=N, params=vals, rel_err=err, variance_code=float(C[0, 0]), variance_oracle=float(E[0, 0]))


def mvals(m):
    v = {}
    for k, s in P.items():
        try:
            x = float(m(s))
        except Exception:
            x = 0.0
        v[k] = x if x > 0 else 0.5
    # keep the witness inside a numerically benign box (the exponential is uninterpreted in the query)
    v["l0"] = min(max(v["l0"], 0.02), 2.0)
    v["delta"] = min(max(v["delta"], 0.05), 2.0)
    v["r0"] = min(max(v["r0"], 0.05), 5.0)
    v["L0"] = min(max(v["L0"], 1.0), 100.0)
    return v


def replay_cov_multi(N, m):
    last = None
    for vals in (mvals(m), dict(r0=0.16, L0=20.0, l0=0.5, delta=0.25), dict(r0=0.3, L0=5.0, l0=0.1, delta=0.1)):
        bad, d = replay_cov(N, vals)
        last = d
        if bad:
            return True, d
    return False, last


# ------------------------------------------------------------------ cases
def scaling_obligations(ctx, tag, run, base, pts, names, replay):
    """amplitude ~ r0^(-5/6) for fixed draws, decomposed at the algebraic power and the square roots:
       L1 (c r0)^(-5/3) = k^2 r0^(-5/3), k = c^(-5/6); L2 per spectral amplitude sqrt(PSD(c r0)) = k sqrt(PSD(r0)); L3 linear chain"""
    c = var("c")
    k = core.rat_pow(c, Fr(-5, 6))
    sc = run(P["r0"] * c)
    y1 = core.rat_pow(P["r0"] * c, Fr(-5, 3))
    y2 = core.rat_pow(P["r0"], Fr(-5, 3))
    prec = PRE + [z(c.re) > 0]
    rps = lambda m: replay(mvals(m), max(0.2, min(5.0, abs(m(c)) or 2.0)) if abs(abs(m(c)) - 1.0) > 1e-6 else 2.0)
    wt = dict(names, c=c)
    ctx.prove("%s L1: (c r0)^(-5/3) = c^(-5/3) r0^(-5/3)" % tag, prec, conj(eqs(y1, y2 * k * k)), replay=rps, witness_terms=wt, timeout_ms=60000)
    lemma1 = z(y1.re) == z((y2 * k * k).re)

    def roots_of(arr):
        names_ = set()
        for e in numpy.asarray(arr, dtype=object).flat:
            core._consts(z(Sym.lift(e).re), names_)
        return sorted(nm for nm in names_ if nm.startswith("sq!") and St.sem.get(nm, ("",))[0] == "sqrt")
    r_un, r_sc = roots_of(base), roots_of(sc)
    pairs = []
    for nm in r_un:
        a2 = St.sem[nm][1]
        a1 = core.canon(z3.substitute(a2, (z(y2.re), z(y1.re))))
        match = [n2 for n2 in r_sc if core.canon(St.sem[n2][1]).sexpr() == a1.sexpr()]
        if match:
            pairs.append((z3.Real(match[0]), z3.Real(nm)))
    ctx.prove("%s every spectral amplitude of the rescaled screen is matched to one of the original" % tag, [], z3.BoolVal(len(pairs) == len(r_un) == len(r_sc)),
              replay=rps, witness_terms=wt, axioms=False)
    lem2 = []
    for v1, v2 in pairs:
        g = v1 == z(k.re) * v2
        ctx.prove("%s L2: sqrt(PSD(c r0)) = c^(-5/6) sqrt(PSD(r0)) for amplitude %s" % (tag, v2), prec + [lemma1], g, replay=rps, witness_terms=wt, timeout_ms=60000)
        lem2.append(g)
    for p in pts:
        ctx.prove("%s L3: screen(c r0) = c^(-5/6) screen(r0) at %s (from L2)" % (tag, p), prec + lem2, conj(eqs(sc[p], base[p] * k)), replay=rps,
                  witness_terms=wt, timeout_ms=60000, axioms=False)


def case_ft(ctx, N):
    ps = _ps()
    St.pow_uf_for = {Fr(11, 6)}
    ctx.encoded(ps.ft_phase_screen, ps.ift2)
    ctx.bounds.update(N=N, parameters="r0, L0, l0, delta symbolic > 0", draws="symbolic / unit vectors")
    ctx.assume("exp uninterpreted (keyed by canonical argument); (f^2+f0^2)^(11/6) uninterpreted; r0 powers algebraic; pi is the double numpy.pi")
    names = dict(P)
    rp = lambda m: replay_cov_multi(N, m)
    ctx.fallback = rp
    X1, Y1 = symarr("a", (N, N)), symarr("b", (N, N))
    X2, Y2 = symarr("c", (N, N)), symarr("d", (N, N))
    al, be = var("al"), var("be")
    s1, g1 = run_ft(N, X1, Y1)
    s2, _ = run_ft(N, X2, Y2)
    s3, _ = run_ft(N, X1 * al + X2 * be, Y1 * al + Y2 * be)
    ctx.paths += 3
    ctx.prove("generator asked for exactly two N x N normal arrays", [], z3.BoolVal([tuple(r) for r in g1.requests] == [(N, N), (N, N)]), replay=rp, axioms=False)
    ctx.prove("(a) screen is linear in the draws", PRE, all_eq(s3, s1 * al + s2 * be), replay=rp, witness_terms=names, timeout_ms=60000)
    z0, _ = run_ft(N, core.obj(numpy.zeros((N, N))), core.obj(numpy.zeros((N, N))))
    ctx.prove("(a) zero draws give the zero screen (homogeneous => zero mean)", PRE, all_eq(z0, numpy.zeros((N, N))), replay=rp, witness_terms=names)
    ctx.prove("screen is real", PRE, conj([z(Sym.lift(e).im) == 0 for e in s1.flat]), replay=rp)
    # unit-draw responses from the real code
    U = []
    for which in range(2):
        for i in range(N):
            for j in range(N):
                a = numpy.zeros((N, N))
                b = numpy.zeros((N, N))
                (a if which == 0 else b)[i, j] = 1
                r, _ = run_ft(N, core.obj(a), core.obj(b))
                U.append(r)
                ctx.paths += 1
    cov = oracle_cov(N)
    pts = [(a, b) for a in range(N) for b in range(N)]
    for p in pts:
        for q in pts:
            if q < p:
                continue
            acc = Sym(0)
            for u in U:
                acc = acc + u[p] * u[q]
            ctx.prove("(b) ensemble covariance of pixels %s,%s = inverse DFT sum of the modified von Karman spectrum (DC removed)" % (p, q), PRE,
                      conj(eqs(acc, cov[(p, q)])), replay=rp, witness_terms=names, timeout_ms=60000)
    v0 = Sym(0)
    for u in U:
        v0 = v0 + u[pts[0]] * u[pts[0]]
    for p in pts[1:]:
        acc = Sym(0)
        for u in U:
            acc = acc + u[p] * u[p]
        ctx.prove("(c) variance at %s equals the variance at %s" % (p, pts[0]), PRE, conj(eqs(acc, v0)), replay=rp, witness_terms=names, timeout_ms=60000)
    scaling_obligations(ctx, "(d)", lambda r0: run_ft(N, X1, Y1, r0=r0)[0], s1, pts, names,
                        lambda vals, cv: _replay_scale(N, vals, cv))
    ctx.prove("guard: covariance with a doubled spectrum is refutable", PRE, conj(eqs(v0, cov[(pts[0], pts[0])] * 2)), expect="sat", kind="sensitivity", timeout_ms=60000)
    ctx.prove("guard: preconditions satisfiable", PRE, z3.BoolVal(False), expect="sat", kind="vacuity", axioms=False)
    # translation validation against the real code
    vals = dict(r0=0.2, L0=10.0, l0=0.5, delta=0.25)
    rng = rng_for("c07%d" % N)
    xa, xb = rand_real(rng, (N, N)), rand_real(rng, (N, N))
    a = assign_of(X1, xa)
    a.update(assign_of(Y1, xb))
    a.update(vals)

    class G(numpy.random.Generator):
        def __init__(self):
            super().__init__(numpy.random.PCG64(1))
            self.k = 0

        def normal(self, loc=0.0, scale=1.0, size=None):
            shape = (size,) if isinstance(size, (int, numpy.integer)) else tuple(int(x) for x in size)
            flat = numpy.concatenate([xa.ravel(), xb.ravel()])
            n = int(numpy.prod(shape))
            v = flat[self.k:self.k + n]
            self.k += n
            return v.reshape(shape) * scale + loc

        def standard_normal(self, size=None, dtype=None, out=None):
            return self.normal(size=size)
    ufs = harness.default_ufs()
    ufs["pow_11_6"] = lambda x: x ** (11. / 6)
    ctx.validate("ft_phase_screen", evaluate(s1, a, ufs), lambda: ps.ft_phase_screen(vals["r0"], N, vals["delta"], vals["L0"], vals["l0"], seed=G()), tol=1e-6)


def _replay_scale(N, vals, c):
    ps = _ps()
    a = ps.ft_phase_screen(vals["r0"] * c, N, vals["delta"], vals["L0"], vals["l0"], seed=numpy.random.default_rng(3))
    b = ps.ft_phase_screen(vals["r0"], N, vals["delta"], vals["L0"], vals["l0"], seed=numpy.random.default_rng(3)) * c ** (-5. / 6)
    e = relerr(a, b)
    return e > 1e-9, dict(what="screen does not scale as r0^(-5/6) for fixed draws", c=c, params=vals, rel_err=e)


def _replay_scale_sh(N, vals, c):
    ps = _ps()
    N = 8
    a = ps.ft_sh_phase_screen(vals["r0"] * c, N, vals["delta"], vals["L0"], vals["l0"], seed=numpy.random.default_rng(3))
    b = ps.ft_sh_phase_screen(vals["r0"], N, vals["delta"], vals["L0"], vals["l0"], seed=numpy.random.default_rng(3)) * c ** (-5. / 6)
    e = relerr(a, b)
    return e > 1e-9, dict(what="sub-harmonic screen does not scale as r0^(-5/6) for fixed draws", c=c, params=vals, rel_err=e)


def draws_in(arr):
    names = set()
    for e in numpy.asarray(arr, dtype=object).flat:
        e = Sym.lift(e)
        for part in (e.re, e.im):
            stack = [z(part)]
            seen = set()
            while stack:
                x = stack.pop()
                if x.get_id() in seen:
                    continue
                seen.add(x.get_id())
                if z3.is_app(x) and x.decl().name() == "draw":
                    names.add(x.sexpr())
                stack.extend(x.children())
    return names


def replay_sh_seed(seed):
    """on the real code: do the low- and high-frequency parts of ft_sh_phase_screen(seed=int) read the same draws?"""
    ps = _ps()
    made = []
    real = numpy.random.default_rng

    class NPX:
        def __getattr__(self, k):
            return getattr(numpy, k)

    class RNDX:
        def __getattr__(self, k):
            return getattr(numpy.random, k)

        @staticmethod
        def default_rng(s=None):
            g = real(s)
            if not isinstance(s, numpy.random.Generator):
                made.append(g)
            return g
    px = NPX()
    px.random = RNDX()
    old = ps.numpy
    ps.numpy = px
    try:
        ps.ft_sh_phase_screen(0.2, 4, 0.1, 20.0, 0.01, seed=seed)
    finally:
        ps.numpy = old
    # two generators created from the same integer seed produce the same numbers
    firsts = [real(seed).normal(size=4) for _ in made]
    same = len(made) >= 2
    return same, dict(what="ft_sh_phase_screen(seed=%r) creates %d generators from the same seed: low- and high-frequency coefficients are the same draws" % (seed, len(made)),
                      generators_created=len(made))


def case_sh(ctx, N, seed_kind):
    ps = _ps()
    St.pow_uf_for = {Fr(11, 6)}
    ctx.encoded(ps.ft_sh_phase_screen, ps.ft_phase_screen, ps.ift2)
    ctx.bounds.update(N=N, seed=seed_kind, parameters="symbolic > 0")
    proxy = npx.NP()
    if seed_kind == "generator":
        seed = npx.Stream(z3.Real("stream!injected"))
    elif seed_kind == "int":
        seed = var("seed")
    else:
        seed = None
    with npx.symbolic(ps, proxy=proxy):
        tot = numpy.asarray(ps.ft_sh_phase_screen(P["r0"], N, P["delta"], P["L0"], P["l0"], seed=seed), dtype=object)
        # the high-frequency part alone, from the same stream state as inside the call
        if seed_kind == "generator":
            hi = numpy.asarray(ps.ft_phase_screen(P["r0"], N, P["delta"], P["L0"], P["l0"], seed=npx.Stream(z3.Real("stream!injected"))), dtype=object)
        elif seed_kind == "int":
            hi = numpy.asarray(ps.ft_phase_screen(P["r0"], N, P["delta"], P["L0"], P["l0"], seed=seed), dtype=object)
        else:
            hi = None
    ctx.paths += 1
    rp_seed = lambda m: replay_sh_seed(7)
    if hi is not None:
        lo = tot - hi
        # disjointness: the draws left in (total - high) after cancellation vs the draws of the high part
        d_hi = draws_in(hi)
        lo_s = numpy.empty(lo.shape, dtype=object)
        for i in numpy.ndindex(*lo.shape):
            lo_s[i] = Sym(z3.simplify(z(Sym.lift(lo[i]).re), som=True))
        d_lo = draws_in(lo_s)
        ctx.prove("(e) low- and high-frequency parts read disjoint draws (seed kind: %s)" % seed_kind, [], z3.BoolVal(bool(d_hi) and not (d_hi & d_lo)),
                  replay=rp_seed, axioms=False)
        acc = Sym(0)
        for e in lo.flat:
            acc = acc + e
        ctx.prove("(e) low-frequency part has zero mean over the grid", PRE, conj(eqs(acc, Sym(0))), replay=lambda m: (False, {}), timeout_ms=60000)
    ctx.prove("result is real and N x N", PRE, z3.And(z3.BoolVal(tot.shape == (N, N)), conj([z(Sym.lift(e).im) == 0 for e in tot.flat])), replay=lambda m: (False, {}))
    if seed_kind == "generator":
        arrs = [symarr("h%d" % i, (N, N)) for i in range(2)] + [symarr("s%d" % i, (3, 3)) for i in range(6)]

        def run(r0):
            with npx.symbolic(ps, proxy=npx.NP()):
                return numpy.asarray(ps.ft_sh_phase_screen(r0, N, P["delta"], P["L0"], P["l0"], seed=Gen(arrs)), dtype=object)
        base = run(P["r0"])
        pts = [(a, b) for a in range(N) for b in range(N)]
        scaling_obligations(ctx, "(e) sub-harmonic screen:", run, base, pts, dict(P), lambda vals, cv: _replay_scale_sh(N, vals, cv))


def replay_custom_fft(N):
    ps = _ps()
    import scipy.fft
    bad = []
    for name, f in (("numpy.fft.ifft2", numpy.fft.ifft2), ("scipy.fft.ifft2", scipy.fft.ifft2)):
        for fn, args in ((ps.ft_phase_screen, (0.2, N, 0.1, 30.0, 0.01)), (ps.ft_sh_phase_screen, (0.2, N, 0.1, 30.0, 0.01))):
            a = fn(*args, seed=numpy.random.default_rng(5))
            b = fn(*args, FFT=f, seed=numpy.random.default_rng(5))
            if not numpy.allclose(a, b, rtol=1e-9, atol=1e-12 * float(numpy.abs(a).max())):
                bad.append("%s(FFT=%s) differs from the default transform by a factor %.6g" % (fn.__name__, name, float(numpy.abs(b).max() / numpy.abs(a).max())))
    return bool(bad), dict(what="; ".join(bad) or "a supplied normalised inverse FFT gives the same screen", N=N)


def case_custom_fft(ctx, N):
    """the optional FFT argument (a normalised inverse 2-D transform, as numpy.fft.ifft2) changes nothing (even N)"""
    ps = _ps()
    St.pow_uf_for = {Fr(11, 6)}
    ctx.encoded(ps.ft_phase_screen, ps.ft_sh_phase_screen, ps.ift2)
    ctx.bounds.update(N=N, FFT="a callable computing the normalised inverse 2-D DFT (numpy.fft.ifft2's contract)")
    X, Y = symarr("x", (N, N)), symarr("y", (N, N))
    rp = lambda m: replay_custom_fft(4 if N == 2 else N)
    ctx.fallback = rp
    with npx.symbolic(ps):
        a = numpy.asarray(ps.ft_phase_screen(P["r0"], N, P["delta"], P["L0"], P["l0"], seed=Gen([X, Y])), dtype=object)
        b = numpy.asarray(ps.ft_phase_screen(P["r0"], N, P["delta"], P["L0"], P["l0"], FFT=npx.FFT.ifft2, seed=Gen([X, Y])), dtype=object)
    ctx.paths += 1
    ctx.prove("ft_phase_screen(FFT=inverse transform) = ft_phase_screen() for the same draws", PRE, all_eq(a, b), replay=rp, timeout_ms=60000)
    with npx.symbolic(ps):
        g1, g2 = npx.Stream(z3.Real("stream!h1")), npx.Stream(z3.Real("stream!h1"))
        a = numpy.asarray(ps.ft_sh_phase_screen(P["r0"], N, P["delta"], P["L0"], P["l0"], seed=g1), dtype=object)
        b = numpy.asarray(ps.ft_sh_phase_screen(P["r0"], N, P["delta"], P["L0"], P["l0"], FFT=npx.FFT.ifft2, seed=g2), dtype=object)
    ctx.paths += 1
    ctx.prove("ft_sh_phase_screen(FFT=inverse transform) = ft_sh_phase_screen() for the same stream", PRE, all_eq(a, b), replay=rp, timeout_ms=60000)


def build_cases(tier):
    cases = [("ft/N=2", case_ft, dict(N=2)), ("custom-FFT/N=2", case_custom_fft, dict(N=2))]
    if tier == "thorough":
        cases.append(("ft/N=4", case_ft, dict(N=4)))
    for kind in ("generator", "int", "none"):
        cases.append(("subharmonic/N=2/seed=%s" % kind, case_sh, dict(N=2, seed_kind=kind)))
    return cases


if __name__ == "__main__":
    sys.exit(harness.main("C07", build_cases, FILES))
