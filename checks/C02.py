"""C02  Tomographic reconstructor is the minimum-variance linear estimator (invertible case).

Real functions executed symbolically: slopecovariance.create_tomographic_covariance_reconstructor and
CovarianceMatrix.make_tomographic_reconstructor; numpy.linalg.pinv(rcond=0) = adjugate * dinv with the single
axiom dinv*det == 1.  The covariance matrix is fully symbolic (symmetric) or comes from the real, symbolically
executed covariance builder (end-to-end, duplicate on-axis sensor).
Normal equations R C_off,off = C_on,off are the optimality condition: for R' = R + Delta,
E|s_on - R' s_off|^2 - E|s_on - R s_off|^2 = tr(Delta C_off,off Delta^T) >= 0 (textbook step, stated).
Outside: singular C_off,off and svd_conditioning > 0 (truncated SVD is LAPACK).
"""
import sys

from .common import *  # noqa: F401,F403
from .common import numpy, z3, core, npx, harness, Sym, St, Fr, z, var, symarr, eqs, conj, all_eq, same_terms
from .covcommon import DCut, Unifier, Geometry, apps_in, resolve_bitor, concrete_matrix, model_vals, generic_vals

FILES = ["aotools/turbulence/slopecovariance.py"]


def _sc():
    import aotools.turbulence.slopecovariance as sc
    return sc


def symm(name, n):
    a = numpy.empty((n, n), dtype=object)
    for i in range(n):
        for j in range(i + 1):
            a[i, j] = var("%s[%d,%d]" % (name, i, j))
            a[j, i] = a[i, j]
    return a.view(core.SA)


def det_nonzero():
    """the nonsingularity assumption of every stubbed inversion so far"""
    return [z(d.re) != 0 for (_, d, _, _) in npx.INV_LOG if not d.isconc()]


def replay_normal(C, n_on):
    sc = _sc()
    C = numpy.asarray(C, dtype=float)
    C = (C + C.T) / 2
    # make the witness well conditioned (the claim is for nonsingular C_off,off): add a diagonal shift
    C = C + numpy.eye(len(C)) * (1.0 + float(numpy.abs(C).sum()))
    R = sc.create_tomographic_covariance_reconstructor(C.copy(), n_on, 0)
    on, off = C[:2 * n_on, 2 * n_on:], C[2 * n_on:, 2 * n_on:]
    bad = R.shape != on.shape or not numpy.allclose(R.dot(off), on, rtol=1e-8, atol=1e-8)
    return bool(bad), dict(what="R C_off,off != C_on,off", C=C, n_on=n_on, R=R)


def case_normal(ctx, n_on, n_off_slopes):
    sc = _sc()
    N = 2 * n_on + n_off_slopes
    C = symm("C", N)
    ctx.encoded(sc.create_tomographic_covariance_reconstructor)
    ctx.bounds.update(on_axis_subaps=n_on, off_axis_slopes=n_off_slopes, matrix="symmetric, every entry a free real", conditioning=0)
    npx.INV_LOG.clear()
    with npx.symbolic(sc):
        R = numpy.asarray(sc.create_tomographic_covariance_reconstructor(C, n_on, 0), dtype=object)
    ctx.paths += 1
    pre = det_nonzero()
    on = C[:2 * n_on, 2 * n_on:]
    off = C[2 * n_on:, 2 * n_on:]
    rp = lambda m: replay_normal(m(C), n_on)
    ctx.fallback = rp
    if R.shape != on.shape:
        ctx.prove("reconstructor shape (2 n_on, off-axis slopes)", pre, z3.BoolVal(False), replay=rp, axioms=False)
        return
    prod = R.dot(off)
    for i in range(on.shape[0]):
        for j in range(on.shape[1]):
            ctx.prove("normal equation entry (%d,%d): (R C_off,off) = C_on,off" % (i, j), pre, conj(eqs(prod[i, j], on[i, j])), replay=rp, timeout_ms=60000)
    ctx.prove("guard: 2R also satisfying the normal equations is refutable", pre + [z(on[0, 0].re) != 0], conj(eqs((prod * 2)[0, 0], on[0, 0])), expect="sat", kind="sensitivity")
    ctx.prove("guard: nonsingular matrices exist", pre, z3.BoolVal(False), expect="sat", kind="vacuity")
    # duplicate: C_on,off = first block row of C_off,off  =>  R = [I 0]
    if n_off_slopes >= 2 * n_on:
        C2 = C.copy()
        C2[:2 * n_on, 2 * n_on:] = off[:2 * n_on, :]
        C2[2 * n_on:, :2 * n_on] = off[:2 * n_on, :].T
        npx.INV_LOG.clear()
        with npx.symbolic(sc):
            R2 = numpy.asarray(sc.create_tomographic_covariance_reconstructor(C2, n_on, 0), dtype=object)
        pre2 = det_nonzero()
        want = numpy.zeros(R2.shape, dtype=object)
        for i in range(R2.shape[0]):
            for j in range(R2.shape[1]):
                want[i, j] = Sym(1 if i == j else 0)
        ctx.prove("duplicate sensor: R = [I 0]", pre2, all_eq(R2, want), replay=lambda m: _replay_dup(m(C2), n_on), timeout_ms=60000)
    # validation
    rng = rng_for("c02%d%d" % (n_on, n_off_slopes))
    Cv = rand_real(rng, (N, N))
    Cv = Cv.dot(Cv.T) + numpy.eye(N) * 3
    a = {}
    for i in range(N):
        for j in range(i + 1):
            a["C[%d,%d]" % (i, j)] = Cv[i, j]
    ctx.validate("create_tomographic_covariance_reconstructor", evaluate(R, a), lambda: sc.create_tomographic_covariance_reconstructor(Cv.copy(), n_on, 0), tol=1e-6)


def _replay_dup(C, n_on):
    sc = _sc()
    C = numpy.asarray(C, dtype=float)
    off = C[2 * n_on:, 2 * n_on:]
    off = (off + off.T) / 2 + numpy.eye(len(off)) * (1.0 + float(numpy.abs(off).sum()))
    C2 = numpy.zeros_like(C)
    C2[2 * n_on:, 2 * n_on:] = off
    C2[:2 * n_on, 2 * n_on:] = off[:2 * n_on]
    C2[2 * n_on:, :2 * n_on] = off[:2 * n_on].T
    C2[:2 * n_on, :2 * n_on] = off[:2 * n_on, :2 * n_on]
    R = sc.create_tomographic_covariance_reconstructor(C2, n_on, 0)
    want = numpy.zeros(R.shape)
    want[:, :2 * n_on] = numpy.eye(2 * n_on)
    bad = not numpy.allclose(R, want, atol=1e-7)
    return bool(bad), dict(what="duplicate on-axis sensor: R != [I 0]", R=R)


class FakeCM:
    pass


def case_method(ctx):
    """the method wrapper uses the first sensor's sub-aperture count and the *current* covariance matrix,
    for any sequence of calls (no stale result)"""
    sc = _sc()
    ctx.encoded(sc.CovarianceMatrix.make_tomographic_reconstructor)
    ctx.bounds.update(history="two reconstructor requests with the covariance matrix replaced in between, same and different conditioning")
    C1, C2 = symm("A", 4), symm("B", 4)
    npx.INV_LOG.clear()
    with npx.symbolic(sc):
        cm = sc.CovarianceMatrix(2, [numpy.ones((1, 1)), numpy.ones((1, 1))], 1.0, [0.5, 0.5], [0, 0], [[0, 0], [1, 1]], [5e-7, 5e-7], 1, [0.0], [0.2], [25.0])
        cm.covariance_matrix = C1
        r1 = numpy.asarray(cm.make_tomographic_reconstructor(), dtype=object)
        d1 = numpy.asarray(sc.create_tomographic_covariance_reconstructor(C1, 1, 0), dtype=object)
        cm.covariance_matrix = C2
        r2 = numpy.asarray(cm.make_tomographic_reconstructor(), dtype=object)
        r2b = numpy.asarray(cm.make_tomographic_reconstructor(svd_conditioning=0), dtype=object)
        d2 = numpy.asarray(sc.create_tomographic_covariance_reconstructor(C2, 1, 0), dtype=object)
        stored = numpy.asarray(cm.tomographic_reconstructor, dtype=object)
    ctx.paths += 1
    pre = det_nonzero()
    rp = lambda m: harness.pristine_call(_replay_method)
    ctx.fallback = rp
    ctx.prove("first request = direct call on the stored matrix with n_subaps[0]", pre, all_eq(r1, d1), replay=rp)
    ctx.prove("request after the matrix was replaced uses the new matrix", pre, all_eq(r2, d2), replay=rp)
    ctx.prove("repeated request with explicit conditioning uses the new matrix", pre, all_eq(r2b, d2), replay=rp)
    ctx.prove("the stored attribute is the last result", pre, all_eq(stored, d2), replay=rp)
    # sensors with different numbers of sub-apertures: the partition is taken at the ON-AXIS sensor's count
    for masks, n_on in (([numpy.ones((1, 1)), numpy.ones((1, 2))], 1), ([numpy.ones((1, 2)), numpy.ones((1, 1))], 2)):
        tot = 2 * int(sum(m.sum() for m in masks))
        C3 = symm("U%d" % n_on, tot)
        npx.INV_LOG.clear()
        with npx.symbolic(sc):
            cm = sc.CovarianceMatrix(2, [m.copy() for m in masks], 1.0, [0.5, 0.5], [0, 0], [[0, 0], [1, 1]], [5e-7, 5e-7], 1, [0.0], [0.2], [25.0])
            cm.covariance_matrix = C3
            r3 = numpy.asarray(cm.make_tomographic_reconstructor(), dtype=object)
            d3 = numpy.asarray(sc.create_tomographic_covariance_reconstructor(C3, n_on, 0), dtype=object)
        ctx.paths += 1
        ctx.prove("unequal sensors (%d on-axis sub-apertures of %d): the method cuts the matrix at the on-axis sensor's count" % (n_on, tot // 2),
                  det_nonzero(), all_eq(r3, d3) if r3.shape == d3.shape else z3.BoolVal(False),
                  replay=lambda m, masks=masks, n_on=n_on: harness.pristine_call(_replay_method_unequal, [mm.tolist() for mm in masks], n_on))


def _replay_method_unequal(masks, n_on):
    sc = _sc()
    masks = [numpy.array(m, dtype=float) for m in masks]
    tot = 2 * int(sum(m.sum() for m in masks))
    rng = rng_for("c02u")
    A = rand_real(rng, (tot, tot))
    A = A.dot(A.T) + numpy.eye(tot) * 3
    cm = sc.CovarianceMatrix(2, masks, 1.0, [0.5, 0.5], [0, 0], [[0, 0], [1, 1]], [5e-7, 5e-7], 1, [0.0], [0.2], [25.0])
    cm.covariance_matrix = A
    r = numpy.asarray(cm.make_tomographic_reconstructor())
    d = numpy.asarray(sc.create_tomographic_covariance_reconstructor(A, n_on, 0))
    bad = r.shape != d.shape or not numpy.allclose(r, d)
    return bool(bad), dict(what="make_tomographic_reconstructor does not partition at the on-axis sensor's sub-aperture count", got_shape=list(r.shape), want_shape=list(d.shape))


def case_method_rebuild(ctx, threads):
    """real object: build, reconstruct, move the on-axis direction, rebuild, reconstruct again with the same
    conditioning - the second reconstructor must belong to the second matrix"""
    sc = _sc()
    masks = [numpy.ones((1, 1))] * 2
    geo = Geometry(masks, 1)
    pre = geo.pre() + [z(a.re) > 0 for a in geo.alt if isinstance(a, Sym)]
    ctx.encoded(sc.CovarianceMatrix.make_covariance_matrix, sc.CovarianceMatrix.make_tomographic_reconstructor)
    ctx.bounds.update(sensors="2 LGS x 1 sub-aperture", threads=threads, history="build, reconstruct, change gs_positions[0], rebuild, reconstruct")
    dcut = DCut()
    gx2, gy2 = var("gx0b"), var("gy0b")
    npx.INV_LOG.clear()

    def go():
        with npx.symbolic(sc, extra={sc.__name__: {"structure_function_vk": dcut}}):
            cm = sc.CovarianceMatrix(*geo.args(threads=threads))
            cm.make_covariance_matrix()
            r1 = numpy.asarray(cm.make_tomographic_reconstructor(), dtype=object).copy()
            cm.gs_positions[0] = [gx2, gy2]
            M2 = numpy.asarray(cm.make_covariance_matrix(), dtype=object).copy()
            r2 = numpy.asarray(cm.make_tomographic_reconstructor(), dtype=object).copy()
            d2 = numpy.asarray(sc.create_tomographic_covariance_reconstructor(M2, 1, 0), dtype=object)
            return r1, r2, d2
    paths, ex = core.run_paths(go, pre)
    ctx.explored(ex, len(paths))
    rp = lambda m: harness.pristine_call(_replay_method_rebuild, threads)
    ctx.fallback = rp
    for pi, p in enumerate(paths):
        if p.exc is not None:
            ctx.prove("path%d raises %s" % (pi, type(p.exc).__name__), pre + p.pc, z3.BoolVal(False), replay=rp, axioms=False)
            continue
        r1, r2, d2 = p.out
        hyp = pre + p.pc + det_nonzero()
        # same inverse placeholders are not shared between the two computations: compare through the normal equations
        same = same_terms(r2, d2)
        ctx.prove("path%d: reconstructor requested after the rebuild is computed from the rebuilt matrix" % pi, hyp,
                  z3.BoolVal(True) if same else all_eq(r2, d2), replay=rp, timeout_ms=60000, replay_on_unknown=True)


def _replay_method_rebuild(threads):
    sc = _sc()
    masks = [numpy.ones((2, 2))] * 2
    args = (2, masks, 1.0, [0.5, 0.5], [90000, 90000], [[0.0, 0.0], [20.0, 10.0]], [5e-7, 5e-7], 1, [5000.0], [0.15], [25.0])
    cm = sc.CovarianceMatrix(*args, threads=threads)
    cm.make_covariance_matrix()
    cm.make_tomographic_reconstructor()
    cm.gs_positions[0] = [-15.0, 25.0]
    M2 = numpy.array(cm.make_covariance_matrix())      # same dtype as the instance holds (float32)
    r2 = numpy.array(cm.make_tomographic_reconstructor())
    d2 = numpy.array(sc.create_tomographic_covariance_reconstructor(M2, 4, 0))
    err = float(numpy.max(numpy.abs(r2 - d2)))
    return err > 1e-6 * max(1.0, float(numpy.max(numpy.abs(d2)))), dict(what="reconstructor after a rebuild (threads=%d) is not the reconstructor of the rebuilt matrix" % threads, max_abs_diff=err)


def _replay_method():
    sc = _sc()
    rng = rng_for("c02m")
    A = rand_real(rng, (4, 4))
    A = A.dot(A.T) + numpy.eye(4) * 3
    B = rand_real(rng, (4, 4))
    B = B.dot(B.T) + numpy.eye(4) * 5
    cm = sc.CovarianceMatrix(2, [numpy.ones((1, 1)), numpy.ones((1, 1))], 1.0, [0.5, 0.5], [0, 0], [[0, 0], [1, 1]], [5e-7, 5e-7], 1, [0.0], [0.2], [25.0])
    cm.covariance_matrix = A
    r1 = cm.make_tomographic_reconstructor()
    cm.covariance_matrix = B
    r2 = cm.make_tomographic_reconstructor()
    d1 = sc.create_tomographic_covariance_reconstructor(A, 1, 0)
    d2 = sc.create_tomographic_covariance_reconstructor(B, 1, 0)
    bad = not numpy.allclose(r1, d1) or not numpy.allclose(r2, d2)
    return bool(bad), dict(what="make_tomographic_reconstructor does not use the current covariance matrix", first=r1, second=r2, want_second=d2)


def case_end_to_end(ctx, dup_first, mask=((1,),), third=True):
    """three one-sub-aperture sensors through the real builder; sensor 1 duplicates the on-axis sensor 0:
    R reproduces sensor 1's slopes and gives zero weight to sensor 2"""
    sc = _sc()
    masks = [numpy.array(mask)] * (3 if third else 2)
    nsub = int(numpy.array(mask).sum())
    geo = Geometry(masks, 1)
    # sensor 1 := sensor 0 (same direction, size, altitude, wavelength)
    geo.d[1], geo.gs[1], geo.alt[1], geo.wv[1] = geo.d[0], geo.gs[0], geo.alt[0], geo.wv[0]
    pre = geo.pre() + [z(a.re) > 0 for a in geo.alt if isinstance(a, Sym)]
    ctx.encoded(sc.CovarianceMatrix.make_covariance_matrix, sc.CovarianceMatrix.make_tomographic_reconstructor, sc.mirror_covariance_matrix)
    ctx.bounds.update(sensors="%d LGS with mask %s each, sensor 1 = copy of on-axis sensor 0%s" % (len(masks), numpy.array(mask).tolist(), ", sensor 2 general" if third else ""), layers=1)
    dcut = DCut()
    npx.INV_LOG.clear()

    def go():
        with npx.symbolic(sc, extra={sc.__name__: {"structure_function_vk": dcut}}):
            cm = sc.CovarianceMatrix(*geo.args())
            M = numpy.asarray(cm.make_covariance_matrix(), dtype=object)
            return M
    paths, ex = core.run_paths(go, pre)
    ctx.explored(ex, len(paths))
    uni = Unifier(ctx, dcut, pre, geo.params())
    for pi, p in enumerate(paths):
        if p.exc is not None:
            continue
        hyp = pre + p.pc
        M = p.out
        # merge structure-function applications, resolve the mirror, then hand the cleaned matrix to the real reconstructor
        allapps = set()
        for e in M.flat:
            allapps |= apps_in(z(Sym.lift(e).re))
        subs = uni.unify(allapps, hyp)
        Mc = numpy.empty(M.shape, dtype=object)
        for i in numpy.ndindex(*M.shape):
            t = z(Sym.lift(M[i]).re)
            if subs:
                t = z3.substitute(t, *subs)
            Mc[i] = Sym(resolve_bitor(ctx, hyp, t))
        Mc = Mc.view(core.SA)
        npx.INV_LOG.clear()
        with npx.symbolic(sc):
            R = numpy.asarray(sc.create_tomographic_covariance_reconstructor(Mc, nsub, 0), dtype=object)
        hyp2 = hyp + det_nonzero()
        want = numpy.zeros(R.shape, dtype=object)
        for i in range(R.shape[0]):
            for j in range(R.shape[1]):
                want[i, j] = Sym(1 if i == j else 0)
        rp = lambda m: _replay_e2e([model_vals(m, geo), generic_vals(geo, 1), generic_vals(geo, 2)], numpy.array(mask), third)
        for i in range(R.shape[0]):
            for j in range(R.shape[1]):
                ctx.prove("path%d R[%d,%d] = %s (duplicate sensor reproduced, other sensor ignored)" % (pi, i, j, want[i, j].re), hyp2,
                          conj(eqs(R[i, j], want[i, j])), replay=rp, timeout_ms=60000)
        on, off = Mc[:2 * nsub, 2 * nsub:], Mc[2 * nsub:, 2 * nsub:]
        prod = R.dot(off)
        ctx.prove("path%d normal equations on the built matrix" % pi, hyp2, all_eq(prod, on), replay=rp, timeout_ms=60000)


def _replay_e2e(vals_list, mask, third):
    sc = _sc()
    masks = [mask] * (3 if third else 2)
    last = None
    for vals in vals_list:
        v = dict(vals)
        for k in ("d", "alt", "wv"):
            v[k] = [vals[k][0], vals[k][0]] + ([vals[k][2]] if third else [])
        v["gs"] = [vals["gs"][0], vals["gs"][0]] + ([vals["gs"][2]] if third else [])
        if any(a == 0 for a in v["alt"]):
            continue
        M, cm = concrete_matrix(v, masks)
        R = cm.make_tomographic_reconstructor()
        off = numpy.asarray(M, dtype=float)[R.shape[0]:, R.shape[0]:]
        try:
            singular = (not numpy.all(numpy.isfinite(off))) or numpy.linalg.cond(off) > 1e6
        except Exception:
            singular = True
        if singular:
            # e.g. the generic geometry (all guide stars on axis at one altitude): C_off,off is singular - outside the
            # invertible case this check claims; nothing the real code returns there confirms or refutes anything
            last = dict(what="geometry with a (numerically) singular C_off,off: outside the invertible case", geometry=v)
            continue
        want = numpy.zeros(R.shape)
        for k in range(R.shape[0]):
            want[k, k] = 1.0
        err = float(numpy.max(numpy.abs(R - want)))
        last = dict(what="duplicate on-axis sensor is not reproduced (R != [I 0])", geometry=v, R=R, max_err=err)
        if not numpy.isfinite(err) or err > 1e-2:
            return True, last
    return False, last


# ------------------------------------------------------------------ conditioning > 0: what the pseudo-inverse is asked to do
class PinvRecorder(npx.LinAlg):
    """numpy.linalg.pinv / scipy.linalg.pinv / pinvh as opaque functions of their matrix argument that RECORD how they
    were called: the truncated pseudo-inverse itself is LAPACK, but which matrix it is taken of, and that the threshold
    is the user's conditioning RELATIVE to the largest singular value (numpy's rcond / rtol), is AOtools code."""
    calls = []

    @staticmethod
    def _opaque(a, tag):
        a = core.obj(a)
        import hashlib
        hsh = hashlib.md5("|".join(z(Sym.lift(e).re).sexpr() for e in a.flat).encode()).hexdigest()[:10]
        P = numpy.empty((a.shape[1], a.shape[0]), dtype=object)
        for i in range(P.shape[0]):
            for j in range(P.shape[1]):
                P[i, j] = Sym(z3.Real("pinv!%s!%s[%d,%d]" % (tag, hsh, i, j)))
        return P.view(core.SA)

    @staticmethod
    def pinv(a, rcond=None, hermitian=False, rtol=None, atol=None, **kw):
        PinvRecorder.calls.append(dict(fn="pinv", a=core.obj(a), relative=rcond if rcond is not None else rtol, absolute=atol, kw=kw))
        return PinvRecorder._opaque(a, "p")

    @staticmethod
    def pinvh(a, atol=None, rtol=None, lower=True, return_rank=False, check_finite=True):
        PinvRecorder.calls.append(dict(fn="pinvh", a=core.obj(a), relative=rtol, absolute=atol, kw={}))
        return PinvRecorder._opaque(a, "h")


def _replay_conditioning(n_on, n_off):
    """real code against numpy's documented truncated pseudo-inverse on matrices with a wide singular spectrum,
    conditioning values between the singular-value ratios"""
    sc = _sc()
    N = 2 * n_on + n_off
    rng = numpy.random.RandomState(3)
    bad = []
    for scale in (1.0, 1e-3, 50.0):
        Q, _ = numpy.linalg.qr(rng.standard_normal((N, N)))
        spec = scale * numpy.array([10.0 ** (-k) for k in range(N)])
        C = (Q * spec).dot(Q.T)
        C = (C + C.T) / 2
        off = C[2 * n_on:, 2 * n_on:]
        on = C[:2 * n_on, 2 * n_on:]
        sv = numpy.linalg.svd(off, compute_uv=False)
        for k in range(1, len(sv)):
            cond = float(numpy.sqrt(sv[k] / sv[0] * sv[k - 1] / sv[0]))     # between two singular-value ratios
            R = numpy.asarray(sc.create_tomographic_covariance_reconstructor(C.copy(), n_on, cond))
            want = on.dot(numpy.linalg.pinv(off, rcond=cond))
            if R.shape != want.shape or not numpy.allclose(R, want, rtol=1e-6, atol=1e-9 * numpy.abs(want).max()):
                bad.append("scale %g, conditioning %.3g: not C_on,off . pinv(C_off,off, rcond=conditioning)" % (scale, cond))
    return bool(bad), dict(what="; ".join(bad[:4]) or "ok", n_on=n_on, off_axis_slopes=n_off)


def case_conditioning(ctx, n_on, n_off_slopes):
    sc = _sc()
    N = 2 * n_on + n_off_slopes
    C = symm("C", N)
    cond = var("cond")
    pre = [z(cond.re) > 0, z(cond.re) < 1]
    ctx.encoded(sc.create_tomographic_covariance_reconstructor)
    ctx.bounds.update(on_axis_subaps=n_on, off_axis_slopes=n_off_slopes, conditioning="symbolic in (0,1)", matrix="symmetric, every entry a free real")
    ctx.assume("the truncated pseudo-inverse itself (LAPACK SVD) is an opaque function of its matrix argument; numpy's rcond semantics define 'the retained singular subspace'")
    proxy = npx.NP()
    proxy.linalg = PinvRecorder()
    del PinvRecorder.calls[:]
    with npx.symbolic(sc, proxy=proxy):
        R = numpy.asarray(sc.create_tomographic_covariance_reconstructor(C, n_on, cond), dtype=object)
    ctx.paths += 1
    calls = list(PinvRecorder.calls)
    rp = lambda m: harness.pristine_call(_replay_conditioning, n_on, n_off_slopes)
    ctx.fallback = rp
    on = C[:2 * n_on, 2 * n_on:]
    off = C[2 * n_on:, 2 * n_on:]
    if len(calls) != 1:
        ctx.prove("exactly one pseudo-inverse is taken (got %d)" % len(calls), pre, z3.BoolVal(False), replay=rp, axioms=False)
        return
    c = calls[0]
    ctx.prove("the pseudo-inverse is taken of C_off,off", pre, all_eq(c["a"], off) if c["a"].shape == off.shape else z3.BoolVal(False), replay=rp)
    rel, ab = c["relative"], c["absolute"]
    g = []
    g += eqs(Sym.lift(rel), cond) if rel is not None else [z3.BoolVal(False)]
    if ab is not None:
        g += eqs(Sym.lift(ab), Sym(0))
    ctx.prove("singular values are cut at conditioning x the largest one (relative threshold = the user's conditioning, no absolute threshold)", pre, conj(g), replay=rp)
    P = PinvRecorder._opaque(c["a"], "p" if c["fn"] == "pinv" else "h")
    ctx.prove("reconstructor = C_on,off . pinv(C_off,off)", pre, all_eq(R, on.dot(P)) if R.shape == (2 * n_on, n_off_slopes) else z3.BoolVal(False), replay=rp)
    ctx.prove("guard: a conditioning exists", pre, z3.BoolVal(False), expect="sat", kind="vacuity", axioms=False)


def _replay_int_matrix(n_on, n_off):
    sc = _sc()
    N = 2 * n_on + n_off
    rng = numpy.random.RandomState(5)
    A = rng.randint(-3, 4, size=(N, N))
    C = A.dot(A.T) + 2 * numpy.eye(N, dtype=int)
    bad = []
    for dt in ("int64", "int32"):
        try:
            Ri = numpy.asarray(sc.create_tomographic_covariance_reconstructor(C.astype(dt), n_on, 0), dtype=float)
        except Exception as e:
            bad.append("raises %s for a %s matrix" % (type(e).__name__, dt))
            continue
        Rf = numpy.asarray(sc.create_tomographic_covariance_reconstructor(C.astype(float), n_on, 0), dtype=float)
        if Ri.shape != Rf.shape or not numpy.allclose(Ri, Rf, rtol=1e-6, atol=1e-9):
            bad.append("%s matrix: reconstructor differs from the one of the same values in float64 (max diff %.3g)" % (dt, float(numpy.max(numpy.abs(Ri - Rf)))))
    return bool(bad), dict(what="; ".join(bad) or "ok", n_on=n_on, off_axis_slopes=n_off)


def case_int_matrix(ctx, n_on, n_off_slopes):
    """a covariance matrix handed over with an INTEGER element type (counts, A.A^T of an integer A) gives the reconstructor
    of the same values in float64: the result must not be cast back 'like the input'"""
    sc = _sc()
    St.typed_casts = True
    N = 2 * n_on + n_off_slopes
    Cf = symm("C", N)
    Ci = core.typed(numpy.array([e for e in Cf.flat], dtype=object).reshape(N, N), "int64")
    pre = core.int_constraints(Cf)
    ctx.encoded(sc.create_tomographic_covariance_reconstructor)
    ctx.bounds.update(on_axis_subaps=n_on, off_axis_slopes=n_off_slopes, matrix="symmetric, every entry a symbolic integer, dtype int64 (and the same values as float64)")
    rp = lambda m: harness.pristine_call(_replay_int_matrix, n_on, n_off_slopes)
    ctx.fallback = rp
    npx.INV_LOG.clear()

    def go():
        with npx.symbolic(sc):
            return numpy.asarray(sc.create_tomographic_covariance_reconstructor(Ci.copy(), n_on, 0), dtype=object), \
                numpy.asarray(sc.create_tomographic_covariance_reconstructor(Cf.copy(), n_on, 0), dtype=object)
    paths, ex = core.run_paths(go, pre, max_paths=16)
    ctx.explored(ex, len(paths))
    for pi, pth in enumerate(paths):
        if pth.exc is not None:
            ctx.prove("path%d: raises %s for an integer matrix" % (pi, type(pth.exc).__name__), pre + pth.pc, z3.BoolVal(False), replay=rp, axioms=False)
            continue
        a, b = pth.out
        ctx.prove("path%d: integer-typed covariance matrix gives the reconstructor of the same values in float64" % pi, pre + pth.pc + det_nonzero(),
                  all_eq(a, b) if a.shape == b.shape else z3.BoolVal(False), replay=rp, timeout_ms=60000, replay_on_unknown=True)


def build_cases(tier):
    cases = []
    combos = [(1, 2), (1, 3), (1, 4), (2, 4)] if tier == "quick" else [(1, 2), (1, 3), (1, 4), (2, 4), (1, 5), (1, 6), (2, 5), (3, 6)]
    for n_on, n_off in combos:
        cases.append(("normal/n_on=%d/off=%d" % (n_on, n_off), case_normal, dict(n_on=n_on, n_off_slopes=n_off)))
    for n_on, n_off in ([(1, 2), (1, 4)] if tier == "quick" else [(1, 2), (1, 4), (2, 4), (2, 6)]):
        cases.append(("conditioning/n_on=%d/off=%d" % (n_on, n_off), case_conditioning, dict(n_on=n_on, n_off_slopes=n_off)))
    cases.append(("integer-matrix/n_on=1/off=2", case_int_matrix, dict(n_on=1, n_off_slopes=2)))
    cases.append(("method", case_method, {}))
    cases.append(("method-after-rebuild/threads=1", case_method_rebuild, dict(threads=1)))
    cases.append(("method-after-rebuild/threads=2", case_method_rebuild, dict(threads=2)))
    cases.append(("end-to-end/duplicate/3 sensors x 1 subap", case_end_to_end, dict(dup_first=True)))
    cases.append(("end-to-end/duplicate/2 sensors x row mask", case_end_to_end, dict(dup_first=True, mask=((1, 1),), third=False)))
    if tier == "thorough":
        cases.append(("end-to-end/duplicate/2 sensors x L mask", case_end_to_end, dict(dup_first=True, mask=((1, 1), (1, 0)), third=False)))
    return cases


if __name__ == "__main__":
    sys.exit(harness.main("C02", build_cases, FILES))
