"""C15  Centroiders locate, shift, scale and batch consistently.

Real functions executed symbolically on all feasible paths (thresholds fork on pixel comparisons, the
brightest-pixel sort forks on orderings): centre_of_gravity (2-D and N-D code paths), brightest_pixel,
quadCell, cross_correlate / correlation_centroid (FFT stub = exact DFT).  Images are symbolic,
non-negative, tiny (2x2 .. 3x3, stacks of 2).  Every call receives a private copy of its input so that
the in-place writes recorded under C20 do not leak between the two sides of a relation.
"""
import sys

from .common import *  # noqa: F401,F403
from .common import numpy, z3, core, npx, harness, Sym, St, Fr, z, var, symarr, eqs, conj, all_eq

FILES = ["aotools/image_processing/centroiders.py"]


def _cm():
    import aotools.image_processing.centroiders as c
    return c


def cp(a):
    return core.obj(numpy.array(a, dtype=object, copy=True))


def nonneg(img, positive_sum=True):
    pre = [z(Sym.lift(e).re) >= 0 for e in img.flat if not Sym.lift(e).isconc()]
    if positive_sum:
        if img.ndim == 2:
            pre.append(z(numpy.sum(img).re) > 0)
        else:
            for f in range(img.shape[0]):
                pre.append(z(Sym.lift(numpy.sum(img[f])).re) > 0)
    return pre


def explore(ctx, fn, pre):
    c = _cm()

    def go():
        with npx.symbolic(c):
            return fn(c)
    paths, ex = core.run_paths(go, pre)
    ctx.explored(ex, len(paths))
    return paths


def relate(ctx, name, pre, fn, goal_of, replay, names=None, allow_exc=False):
    """fn(c) -> tuple of results computed on one path; goal_of(results) -> z3 goal"""
    paths = explore(ctx, fn, pre)
    for pi, p in enumerate(paths):
        hyp = pre + p.pc
        if p.exc is not None:
            ctx.prove("%s/path%d raises %s" % (name, pi, type(p.exc).__name__), hyp, z3.BoolVal(False), replay=replay,
                      witness_terms=names, axioms=False)
            continue
        ctx.prove("%s/path%d" % (name, pi), hyp, goal_of(p.out), replay=replay, witness_terms=names, timeout_ms=30000)
    ctx.prove("%s/guard: preconditions satisfiable" % name, pre, z3.BoolVal(False), expect="sat", kind="vacuity", axioms=False)
    return paths


# ------------------------------------------------------------------ concrete replays
def _img(m, img):
    a = numpy.abs(numpy.asarray(m(img), dtype=float))
    return a


def _neq(a, b):
    a, b = numpy.asarray(a, dtype=float), numpy.asarray(b, dtype=float)
    if a.shape != b.shape:
        return True
    if numpy.any(numpy.isnan(a) != numpy.isnan(b)):
        return True
    return bool(numpy.nanmax(numpy.abs(a - b)) > 1e-9 * max(1.0, float(numpy.nanmax(numpy.abs(b)))))


def call(fname, img, *args, **kw):
    return getattr(_cm(), fname)(numpy.array(img, dtype=float, copy=True), *args, **kw)


def replay_scale(fname, img, k, args):
    a, b = call(fname, img * k, *args), call(fname, img, *args)
    return _neq(a, b), dict(what="%s not invariant under multiplication by k>0" % fname, img=img, k=k, args=list(args), scaled=a, plain=b)


def replay_stack(fname, stack, args, as2d):
    s = call(fname, stack, *args)
    bad = False
    per = []
    for f in range(stack.shape[0]):
        one = call(fname, stack[f] if as2d else stack[f:f + 1], *args)
        one = numpy.asarray(one).reshape(2)
        per.append(one)
        bad = bad or _neq(numpy.asarray(s)[:, f], one)
    return bad, dict(what="%s: stack result differs from the frame processed alone (%s)" % (fname, "as a 2-D image" if as2d else "as a 1-frame stack"),
                     stack=stack, args=list(args), stack_result=s, per_frame=per)


def replay_shift(fname, small, n, off, d, args):
    a = numpy.zeros((n, n))
    b = numpy.zeros((n, n))
    h, w = small.shape
    a[off[0]:off[0] + h, off[1]:off[1] + w] = small
    b[off[0] + d[0]:off[0] + d[0] + h, off[1] + d[1]:off[1] + d[1] + w] = small
    ca, cb = call(fname, a, *args), call(fname, b, *args)
    return _neq(numpy.asarray(cb), numpy.asarray(ca) + numpy.array([d[1], d[0]])), dict(
        what="%s does not move by the shift" % fname, content=small, shift_yx=list(d), before=ca, after=cb)


# ------------------------------------------------------------------ cases
def case_single_pixel(ctx, n):
    c = _cm()
    v = var("v")
    pre = [z(v.re) > 0]
    ctx.encoded(c.centre_of_gravity, c.brightest_pixel)
    ctx.bounds.update(size=n, pixel_value="symbolic > 0", positions="all")
    for i in range(n):
        for j in range(n):
            img = core.obj(numpy.zeros((n, n)))
            img[i, j] = v
            want = numpy.array([Sym(j), Sym(i)], dtype=object)
            for thr in (0, Fr(1, 2)):
                relate(ctx, "cog single pixel (%d,%d) thr=%s" % (i, j, thr), pre, lambda c_, img=img, thr=thr: c_.centre_of_gravity(cp(img), threshold=thr),
                       lambda out, want=want: all_eq(numpy.asarray(out, dtype=object), want),
                       lambda m, i=i, j=j, thr=thr: _replay_single("centre_of_gravity", n, i, j, m(v), dict(threshold=float(thr))), dict(v=v))
            if n == 2:
                relate(ctx, "brightest_pixel single pixel (%d,%d)" % (i, j), pre, lambda c_, img=img: c_.brightest_pixel(cp(img), Fr(1, 2)),
                       lambda out, want=want: all_eq(numpy.asarray(out, dtype=object), want),
                       lambda m, i=i, j=j: _replay_single("brightest_pixel", n, i, j, m(v), dict(threshold=0.5)), dict(v=v))


def _replay_single(fname, n, i, j, v, kw):
    img = numpy.zeros((n, n))
    img[i, j] = abs(v) + 1e-3
    out = getattr(_cm(), fname)(img.copy(), **kw)
    return _neq(out, [j, i]), dict(what="%s of a single bright pixel" % fname, pixel=[i, j], value=img[i, j], got=out)


def case_scale(ctx, fname, shape, args):
    c = _cm()
    img = symarr("p", shape)
    k = var("k")
    pre = nonneg(img) + [z(k.re) > 0]
    ctx.encoded(getattr(c, fname))
    ctx.bounds.update(shape=list(shape), args=[str(a) for a in args], image="symbolic non-negative, positive sum per frame")
    relate(ctx, "%s(k*img) = %s(img)" % (fname, fname), pre,
           lambda c_: (getattr(c_, fname)(cp(img * k), *args), getattr(c_, fname)(cp(img), *args)),
           lambda out: all_eq(numpy.asarray(out[0], dtype=object), numpy.asarray(out[1], dtype=object)),
           lambda m: replay_scale(fname, _img(m, img), abs(m(k)) + 1e-3, [float(a) for a in args]), dict(k=k))


def case_stack(ctx, fname, shape, args, as2d):
    c = _cm()
    stack = symarr("p", shape)
    pre = nonneg(stack)
    ctx.encoded(getattr(c, fname))
    ctx.bounds.update(stack_shape=list(shape), args=[str(a) for a in args], frame_alone="2-D image" if as2d else "1-frame stack")

    def fn(c_):
        s = getattr(c_, fname)(cp(stack), *args)
        per = []
        for f in range(shape[0]):
            one = getattr(c_, fname)(cp(stack[f]) if as2d else cp(stack[f:f + 1]), *args)
            per.append(numpy.asarray(one, dtype=object).reshape(2))
        return s, per

    def goal(out):
        s, per = out
        s = numpy.asarray(s, dtype=object)
        g = []
        for f in range(shape[0]):
            g += eqs(s[:, f], per[f])
        return conj(g)
    relate(ctx, "%s: stack = each frame alone (%s)" % (fname, "2-D" if as2d else "1-frame stack"), pre, fn, goal,
           lambda m: replay_stack(fname, _img(m, stack), [float(a) for a in args], as2d))


def case_shift(ctx, fname, n, args):
    c = _cm()
    small = symarr("q", (n - 2, n - 2) if n > 3 else (1, 1))
    h, w = small.shape
    pre = nonneg(small)
    ctx.encoded(getattr(c, fname))
    ctx.bounds.update(frame=n, content="%dx%d symbolic non-negative block" % (h, w), shifts="one pixel in each direction inside the frame")
    off = (1, 1) if n > 3 else (1, 1)
    for d in ((0, 1), (1, 0), (0, -1), (-1, 0), (1, 1)):
        if not (0 <= off[0] + d[0] and off[0] + d[0] + h <= n and 0 <= off[1] + d[1] and off[1] + d[1] + w <= n):
            continue
        a = core.obj(numpy.zeros((n, n)))
        b = core.obj(numpy.zeros((n, n)))
        a[off[0]:off[0] + h, off[1]:off[1] + w] = small
        b[off[0] + d[0]:off[0] + d[0] + h, off[1] + d[1]:off[1] + d[1] + w] = small
        relate(ctx, "%s moves by the shift %s" % (fname, (d,)), pre,
               lambda c_, a=a, b=b: (getattr(c_, fname)(cp(a), *args), getattr(c_, fname)(cp(b), *args)),
               lambda out, d=d: all_eq(numpy.asarray(out[1], dtype=object), numpy.asarray(out[0], dtype=object) + numpy.array([Sym(d[1]), Sym(d[0])], dtype=object)),
               lambda m, d=d: replay_shift(fname, _img(m, small), n, off, d, [float(x) for x in args]))


def case_quad(ctx, batch):
    c = _cm()
    img = symarr("p", tuple(batch) + (2, 2))
    ctx.encoded(c.quadCell)
    ctx.bounds.update(shape=list(batch) + [2, 2])
    with npx.symbolic(c):
        q = numpy.asarray(c.quadCell(img), dtype=object)
        qx = numpy.asarray(c.quadCell(img[..., ::-1]), dtype=object)
        qy = numpy.asarray(c.quadCell(img[..., ::-1, :]), dtype=object)
    ctx.paths += 1
    rp = lambda m: _replay_quad(m(img))
    ctx.fallback = rp
    ctx.prove("mirror in x flips the x signal, keeps y", [], conj(eqs(qx[0], -q[0]) + eqs(qx[1], q[1])), replay=rp)
    ctx.prove("mirror in y flips the y signal, keeps x", [], conj(eqs(qy[1], -q[1]) + eqs(qy[0], q[0])), replay=rp)
    if batch:
        g = []
        for f in range(batch[0]):
            with npx.symbolic(c):
                one = numpy.asarray(c.quadCell(img[f]), dtype=object)
            g += eqs(q[:, f], one)
        ctx.prove("stack = each frame alone", [], conj(g), replay=rp)
    k = var("k")
    with npx.symbolic(c):
        qk = numpy.asarray(c.quadCell(img * k), dtype=object)
    ctx.prove("quad-cell signal is homogeneous of degree one (sign unchanged by k>0)", [z(k.re) > 0], all_eq(qk, q * k), replay=rp)


def _replay_quad(img):
    c = _cm()
    img = numpy.asarray(img, dtype=float)
    q = c.quadCell(img)
    qx = c.quadCell(img[..., ::-1])
    qy = c.quadCell(img[..., ::-1, :])
    bad = _neq(qx[0], -q[0]) or _neq(qx[1], q[1]) or _neq(qy[1], -q[1]) or _neq(qy[0], q[0])
    return bad, dict(what="quadCell mirror antisymmetry", img=img, q=q, q_mirror_x=qx, q_mirror_y=qy)


def case_corr(ctx, shape, padding, content, shifts):
    """image = reference displaced by s (content stays inside the frame): centroid = array centre (sample n//2) + s"""
    c = _cm()
    ny, nx = shape
    h, w = content
    blob = symarr("b", content)
    pre = [z(e.re) > 0 for e in blob.flat]
    ctx.encoded(c.correlation_centroid, c.cross_correlate, c.centre_of_gravity)
    ctx.bounds.update(frame=list(shape), padding=padding, content="%dx%d symbolic positive blob on a zero background" % content, shifts=[list(s) for s in shifts])
    oy, ox = (ny - h) // 2, (nx - w) // 2
    for s in shifts:
        ref = core.obj(numpy.zeros(shape))
        im = core.obj(numpy.zeros(shape))
        ref[oy:oy + h, ox:ox + w] = blob
        if not (0 <= oy + s[0] and oy + s[0] + h <= ny and 0 <= ox + s[1] and ox + s[1] + w <= nx):
            continue
        im[oy + s[0]:oy + s[0] + h, ox + s[1]:ox + s[1] + w] = blob
        want = numpy.array([Sym(nx // 2 + s[1]), Sym(ny // 2 + s[0])], dtype=object)
        for three_d in (False, True):
            def fn(c_, im=im, ref=ref, three_d=three_d):
                i2 = cp(im)
                if three_d:
                    i2 = core.obj(numpy.array([i2, i2], dtype=object))
                return c_.correlation_centroid(i2, cp(ref), threshold=0., padding=padding)

            def goal(out, want=want, three_d=three_d):
                out = numpy.asarray(out, dtype=object)
                g = eqs(out[:, 0], want)
                if three_d:
                    g += eqs(out[:, 1], want)
                return conj(g)
            relate(ctx, "shift %s %s" % (tuple(s), "stack" if three_d else "single"), pre, fn, goal,
                   lambda m, s=s, three_d=three_d: _replay_corr(shape, padding, numpy.abs(m(blob)) + 1e-3, (oy, ox), s, three_d))


def _replay_corr(shape, padding, blob, off, s, three_d):
    c = _cm()
    ref = numpy.zeros(shape)
    im = numpy.zeros(shape)
    h, w = blob.shape
    ref[off[0]:off[0] + h, off[1]:off[1] + w] = blob
    im[off[0] + s[0]:off[0] + s[0] + h, off[1] + s[1]:off[1] + s[1] + w] = blob
    i2 = numpy.array([im, im]) if three_d else im.copy()
    out = c.correlation_centroid(i2, ref.copy(), threshold=0., padding=padding)
    want = numpy.array([shape[1] // 2 + s[1], shape[0] // 2 + s[0]])
    bad = _neq(out[:, 0], want)
    return bad, dict(what="correlation centroid is not the array centre plus the displacement", frame=list(shape), padding=padding,
                     blob=blob, shift_yx=list(s), got=out, want=want)


def build_cases(tier):
    half = Fr(1, 2)
    cases = [("single-pixel/n=2", case_single_pixel, dict(n=2)), ("single-pixel/n=3", case_single_pixel, dict(n=3))]
    for thr in (0, Fr(3, 10)):
        cases.append(("scale/cog/2x2/thr=%s" % thr, case_scale, dict(fname="centre_of_gravity", shape=(2, 2), args=(thr,))))
        cases.append(("scale/cog/stack%s/thr=%s" % ("2x2x2" if thr == 0 else "2x1x2", thr), case_scale,
                      dict(fname="centre_of_gravity", shape=(2, 2, 2) if thr == 0 else (2, 1, 2), args=(thr,))))
        for shp in ((2, 1, 2), (2, 2, 1)) + (((2, 2, 2),) if thr == 0 else ()):
            nm = "x".join(map(str, shp))
            cases.append(("stack/cog/%s/thr=%s/1-frame" % (nm, thr), case_stack, dict(fname="centre_of_gravity", shape=shp, args=(thr,), as2d=False)))
            cases.append(("stack/cog/%s/thr=%s/2-D" % (nm, thr), case_stack, dict(fname="centre_of_gravity", shape=shp, args=(thr,), as2d=True)))
    cases.append(("scale/brightest/2x2", case_scale, dict(fname="brightest_pixel", shape=(2, 2), args=(half,))))
    cases.append(("stack/brightest/2x1x2/2-D", case_stack, dict(fname="brightest_pixel", shape=(2, 1, 2), args=(half,), as2d=True)))
    # a fraction whose pixel count is not an integer (0.4 * 3 = 1.2): stack and single frame must round it the same way
    cases.append(("stack/brightest/2x1x3/frac=2over5/2-D", case_stack, dict(fname="brightest_pixel", shape=(2, 1, 3), args=(Fr(2, 5),), as2d=True)))
    cases.append(("shift/cog/n=3", case_shift, dict(fname="centre_of_gravity", n=3, args=(0,))))
    cases.append(("shift/cog/n=4", case_shift, dict(fname="centre_of_gravity", n=4, args=(0,))))
    cases.append(("shift/cog/n=4/thr", case_shift, dict(fname="centre_of_gravity", n=4, args=(Fr(3, 10),))))
    cases.append(("quad/single", case_quad, dict(batch=())))
    cases.append(("quad/stack", case_quad, dict(batch=(2,))))
    cases.append(("corr/2x2/pad=2", case_corr, dict(shape=(2, 2), padding=2, content=(1, 1), shifts=[(0, 0), (0, 1), (1, 0), (1, 1)])))
    cases.append(("corr/1x2/pad=2", case_corr, dict(shape=(1, 2), padding=2, content=(1, 1), shifts=[(0, 0), (0, 1)])))
    cases.append(("corr/2x1/pad=2", case_corr, dict(shape=(2, 1), padding=2, content=(1, 1), shifts=[(0, 0), (1, 0)])))
    cases.append(("corr/1x3/pad=1", case_corr, dict(shape=(1, 3), padding=1, content=(1, 1), shifts=[(0, 0), (0, 1), (0, -1)])))
    cases.append(("corr/3x3/pad=1", case_corr, dict(shape=(3, 3), padding=1, content=(1, 1), shifts=[(0, 0), (0, 1), (1, 0), (-1, -1)])))
    cases.append(("corr/1x3/pad=2", case_corr, dict(shape=(1, 3), padding=2, content=(1, 1), shifts=[(0, 0), (0, 1), (0, -1)])))
    cases.append(("corr/3x1/pad=3", case_corr, dict(shape=(3, 1), padding=3, content=(1, 1), shifts=[(0, 0), (1, 0)])))
    cases.append(("corr/4x4/pad=1/pixel", case_corr, dict(shape=(4, 4), padding=1, content=(1, 1), shifts=[(0, 0), (0, 1), (1, 0), (-1, 0), (0, -1)])))
    cases.append(("corr/4x4/pad=1/blob2x2", case_corr, dict(shape=(4, 4), padding=1, content=(2, 2), shifts=[(0, 0), (0, 1), (1, 0), (-1, 0), (0, -1)])))
    if tier == "thorough":
        cases.append(("scale/cog/stack2x2x2/thr=3/10", case_scale, dict(fname="centre_of_gravity", shape=(2, 2, 2), args=(Fr(3, 10),))))
        cases.append(("scale/cog/3x3/thr=0", case_scale, dict(fname="centre_of_gravity", shape=(3, 3), args=(0,))))
        cases.append(("scale/cog/2x3/thr=3/10", case_scale, dict(fname="centre_of_gravity", shape=(2, 3), args=(Fr(3, 10),))))
        cases.append(("stack/cog/3x1x2/thr=3/10/1-frame", case_stack, dict(fname="centre_of_gravity", shape=(3, 1, 2), args=(Fr(3, 10),), as2d=False)))
        cases.append(("stack/brightest/2x1x3/2-D", case_stack, dict(fname="brightest_pixel", shape=(2, 1, 3), args=(Fr(2, 3),), as2d=True)))
        cases.append(("scale/brightest/2x3", case_scale, dict(fname="brightest_pixel", shape=(2, 3), args=(half,))))
        cases.append(("corr/2x4/pad=2", case_corr, dict(shape=(2, 4), padding=2, content=(1, 2), shifts=[(0, 0), (0, 1), (1, 0)])))
        cases.append(("corr/4x2/pad=2", case_corr, dict(shape=(4, 2), padding=2, content=(2, 1), shifts=[(0, 0), (0, 1), (1, 0)])))
        cases.append(("shift/cog/n=5", case_shift, dict(fname="centre_of_gravity", n=5, args=(0,))))
    return cases


if __name__ == "__main__":
    sys.exit(harness.main("C15", build_cases, FILES))
