"""Shared machinery for the infinite-phase-screen checks (C04, C05, C06)."""
import random

from .common import numpy, z3, core, npx, harness, Sym, St, Fr, z, var, symarr, eqs, conj
from .covcommon import DCut, Unifier, apps_in


def _ips():
    import aotools.turbulence.infinitephasescreen as ips
    return ips


class TurbCut:
    """stands for the `turb` module seen by infinitephasescreen: phase_covariance is a cut-point"""

    def __init__(self):
        self.cut = DCut()

    def phase_covariance(self, r, r0, L0):
        return self.cut(r, r0, L0)


class ScreenStub:
    """stands for the `phasescreen` module seen by infinitephasescreen: the initial FFT screen is a fresh
    symbolic array (its own law is C07's subject); calls are recorded"""

    def __init__(self, tag="z"):
        self.calls = []
        self.tag = tag

    def ft_phase_screen(self, r0, N, delta, L0, l0, FFT=None, seed=None):
        N = int(N)
        k = len(self.calls)
        a = numpy.empty((N, N), dtype=object)
        for i in range(N):
            for j in range(N):
                a[i, j] = Sym(z3.Real("%s%d[%d,%d]" % (self.tag, k, i, j)))
        self.calls.append(dict(r0=r0, N=N, delta=delta, L0=L0, l0=l0, seed=seed, out=a))
        return a.view(core.SA)


def make_screen(kind, nx, param, ps, r0, L0, seed=None, turb=None, screen=None):
    """construct the real screen class under symbolic execution; returns (object, TurbCut, ScreenStub)"""
    ips = _ips()
    turb = turb or TurbCut()
    screen = screen or ScreenStub()
    with npx.symbolic(ips, extra={ips.__name__: {"turb": turb, "phasescreen": screen}}):
        if kind == "vk":
            scr = ips.PhaseScreenVonKarman(nx, ps, r0, L0, random_seed=seed, n_columns=param)
        else:
            scr = ips.PhaseScreenKolmogorov(nx, ps, r0, L0, random_seed=seed, stencil_length_factor=param)
    return scr, turb, screen


def with_screen_env(turb, screen):
    ips = _ips()
    return npx.symbolic(ips, extra={ips.__name__: {"turb": turb, "phasescreen": screen}})


def oracle_cov(dcut, pts, ps, r0, L0):
    """Cov(p, q) = c(pixel_scale^2 |p-q|^2) for integer grid points"""
    n = len(pts)
    O = numpy.empty((n, n), dtype=object)
    for a, p in enumerate(pts):
        for b, q in enumerate(pts):
            d2 = (p[0] - q[0]) ** 2 + (p[1] - q[1]) ** 2
            e = Sym(0)
            e.sq_of = (ps * ps * d2).re
            O[a, b] = dcut.one(e, r0, L0)
    return O


def unified(ctx, uni, hyp, *terms):
    apps = set()
    for t in terms:
        apps |= apps_in(t)
    subs = uni.unify(apps, hyp)
    if subs:
        return [z3.substitute(t, *subs) for t in terms]
    return list(terms)
