"""shared helpers for the per-property checks"""
import os
import sys
import random

REPO = os.environ.get("AOTOOLS_REPO", "/repo")
sys.dont_write_bytecode = True
if REPO not in sys.path:
    sys.path.insert(0, REPO)
os.environ.setdefault("MPLBACKEND", "Agg")

import numpy  # noqa: E402
import z3  # noqa: E402

from symnp import core, npx, harness  # noqa: E402
from symnp.core import Sym, St, Fr, z, var, cvar, symarr, obj, SA  # noqa: E402


def eqs(a, b):
    """list of z3 equalities (re and im parts) between two arrays/scalars of Sym"""
    out = []
    if isinstance(a, numpy.ndarray) or isinstance(b, numpy.ndarray):
        a = numpy.asarray(a, dtype=object)
        b = numpy.asarray(b, dtype=object)
        if a.shape != b.shape:
            return [z3.BoolVal(False)]
        for i in numpy.ndindex(*a.shape):
            out += eqs(a[i], b[i])
        return out
    a, b = Sym.lift(a), Sym.lift(b)
    for x, y in ((a.re, b.re), (a.im, b.im)):
        if core.conc(x) and core.conc(y):
            if x != y:
                out.append(z3.BoolVal(False))
        else:
            out.append(z(x) == z(y))
    return out


def conj(cs):
    cs = list(cs)
    if not cs:
        return z3.BoolVal(True)
    return z3.And(*cs) if len(cs) > 1 else cs[0]


def all_eq(a, b):
    return conj(eqs(a, b))


def same_terms(a, b):
    """structural identity of two Sym arrays (hash-consed z3 terms / equal Fractions)"""
    a = numpy.asarray(a, dtype=object)
    b = numpy.asarray(b, dtype=object)
    if a.shape != b.shape:
        return False
    for i in numpy.ndindex(*a.shape):
        x, y = Sym.lift(a[i]), Sym.lift(b[i])
        for u, v in ((x.re, y.re), (x.im, y.im)):
            if core.conc(u) != core.conc(v):
                return False
            if core.conc(u):
                if u != v:
                    return False
            elif not u.eq(v):
                return False
    return True


def power(a):
    """sum |a|^2 as a Sym"""
    acc = Sym(0)
    for e in numpy.asarray(a, dtype=object).flat:
        acc = acc + Sym.lift(e).abs2()
    return acc


def rng_for(name):
    seed = int(os.environ.get("VERIF_SEED", "0") or 0)
    return random.Random("%d:%s" % (seed, name))


def rand_complex(rng, shape):
    a = numpy.empty(shape, dtype=complex)
    for i in numpy.ndindex(*a.shape):
        a[i] = complex(rng.randint(-8, 8) / 4.0, rng.randint(-8, 8) / 4.0)
    return a


def rand_real(rng, shape, lo=-8, hi=8, den=4.0):
    a = numpy.empty(shape, dtype=float)
    for i in numpy.ndindex(*a.shape):
        a[i] = rng.randint(lo, hi) / den
    return a


def assign_of(symarr_, values):
    """dict var-name -> value for an array of plain variables"""
    out = {}
    for i in numpy.ndindex(*symarr_.shape):
        e = symarr_[i]
        v = values[i]
        out[e.re.decl().name()] = float(numpy.real(v))
        if not core.is_zero(e.im):
            out[e.im.decl().name()] = float(numpy.imag(v))
    return out


def evaluate(arr, assign, ufs=None):
    ev = harness.Evaluator(assign, ufs or harness.default_ufs())
    if isinstance(arr, numpy.ndarray):
        out = numpy.empty(arr.shape, dtype=complex)
        for i in numpy.ndindex(*arr.shape):
            out[i] = ev(Sym.lift(arr[i]))
        return out
    return ev(Sym.lift(arr))


def relerr(a, b):
    a = numpy.asarray(a, dtype=complex)
    b = numpy.asarray(b, dtype=complex)
    if a.shape != b.shape:
        return float("inf")
    s = max(1e-300, float(numpy.max(numpy.abs(b))) if b.size else 1.0)
    return float(numpy.max(numpy.abs(a - b))) / s if a.size else 0.0
