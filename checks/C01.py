"""C01  Slope covariance matrix equals the true covariance of the WFS slopes (structure).

The real CovarianceMatrix.__init__ / make_covariance_matrix / _make_covariance_matrix / wfs_covariance /
calculate_wfs_seperations / compute_covariance_xx,yy,xy / mirror_covariance_matrix run on fully symbolic
geometry (telescope and sub-aperture diameters, guide-star offsets and altitudes, wavelengths, layer
altitudes, r0, L0); masks are concrete 0/1 arrays (asymmetric ones included).  structure_function_vk is a
cut-point (placeholder per application, arguments unified by solver-proved equalities), so each entry
obligation says: the code combines the right separations with the right signs, factors and positions.
Decided: (a) every entry = independent oracle, (b) symmetry, (c) additivity over layers, (d) r0^(-5/3) scaling
of the real structure function + entries linear in D with r0-free coefficients, wavelength bilinearity.
"""
import sys

from .common import *  # noqa: F401,F403
from .common import numpy, z3, core, npx, harness, Sym, St, Fr, z, var, symarr, eqs, conj, all_eq
from .covcommon import DCut, Unifier, Geometry, apps_in, resolve_bitor, lgs_flags, concrete_matrix, concrete_oracle, model_vals, generic_vals

FILES = ["aotools/turbulence/slopecovariance.py"]

MASKS = {
    "full2": [[1, 1], [1, 1]],
    "L": [[1, 1], [1, 0]],
    "diag": [[1, 0], [0, 1]],
    "one": [[1]],
    "row": [[1, 1]],
    "col": [[1], [1]],
    "corner": [[0, 1], [0, 0]],
    "plus3": [[0, 1, 0], [1, 1, 1], [0, 1, 0]],
    "asym3": [[1, 1, 0], [0, 1, 0], [0, 0, 0]],
}


def _sc():
    import aotools.turbulence.slopecovariance as sc
    return sc


def build(ctx, geo, dcut, pre, layers=None, threads=1, wv_scale=None):
    sc = _sc()

    def go():
        with npx.symbolic(sc, extra={sc.__name__: {"structure_function_vk": dcut}}):
            a = list(geo.args(threads, layers))
            if wv_scale is not None:
                a[6] = [w * s for w, s in zip(a[6], wv_scale)]
            cm = sc.CovarianceMatrix(*a)
            return numpy.asarray(cm.make_covariance_matrix(), dtype=object)
    paths, ex = core.run_paths(go, pre)
    ctx.explored(ex, len(paths))
    return paths


def replay_entry(masks, vals_list, i, j, layers=None):
    """compare entry (i,j) of the real matrix with the float64 oracle, on the witness and on generic geometries"""
    last = None
    for vals in vals_list:
        try:
            M, _ = concrete_matrix(vals, masks, layers)
            O = concrete_oracle(vals, masks, layers)
        except Exception as e:
            return True, dict(what="building the matrix raises %s: %s" % (type(e).__name__, e), geometry=vals)
        scale = float(numpy.max(numpy.abs(O))) or 1.0
        if M.shape != O.shape:
            return True, dict(what="matrix shape %s, expected %s" % (M.shape, O.shape))
        err = abs(M[i, j] - O[i, j]) / scale
        asym = abs(M[i, j] - M[j, i]) / scale
        last = dict(what="entry (%d,%d) differs from the covariance of the two slopes" % (i, j), geometry=vals, masks=[numpy.asarray(m).tolist() for m in masks],
                    code=float(M[i, j]), oracle=float(O[i, j]), rel_to_max_entry=err, asymmetry=asym)
        if not numpy.isfinite(err) or err > 2e-3 or asym > 2e-3:
            return True, last
    return False, last


def case_entries(ctx, mask_names, n_layers, lgs, shared_d=False, shared_alt=False, shared_gs=False):
    sc = _sc()
    masks = [numpy.array(MASKS[m]) for m in mask_names]
    n = len(masks)
    geo = Geometry(masks, n_layers, shared_d=shared_d, shared_alt=shared_alt, shared_gs=shared_gs, ngs=[w for w in range(n) if not lgs[w]])
    pre = geo.pre() + [z(a.re) > 0 for a in geo.alt if isinstance(a, Sym)]
    ctx.encoded(sc.CovarianceMatrix.make_covariance_matrix, sc.CovarianceMatrix._make_covariance_matrix, sc.wfs_covariance,
                sc.calculate_wfs_seperations, sc.compute_covariance_xx, sc.compute_covariance_yy, sc.compute_covariance_xy, sc.mirror_covariance_matrix)
    ctx.bounds.update(masks=mask_names, layers=n_layers, guide_stars=["LGS" if f else "NGS" for f in lgs],
                      geometry="all symbolic (diameters, offsets, altitudes, wavelengths, layer altitude/r0/L0)",
                      shared=dict(subap_diameter=shared_d, altitude=shared_alt, direction=shared_gs))
    ctx.assume("structure_function_vk is a cut-point: an arbitrary function of (squared separation, r0, L0); its formula is C08's subject")
    ctx.assume("float32 storage and the bit-OR of two float32 values that differ in the last place are outside (REAL mode)")
    dcut = DCut()
    paths = build(ctx, geo, dcut, pre)
    sl = geo.slopes()
    N = len(sl)
    uni = Unifier(ctx, dcut, pre, geo.params())
    for pi, p in enumerate(paths):
        hyp = pre + p.pc
        if p.exc is not None:
            ctx.prove("path%d raises %s" % (pi, type(p.exc).__name__), hyp, z3.BoolVal(False),
                      replay=lambda m: (True, dict(what="raises %r" % p.exc)), axioms=False)
            continue
        M = p.out
        if M.shape != (N, N):
            ctx.prove("path%d matrix is %dx%d (x then y slopes per sensor)" % (pi, N, N), hyp, z3.BoolVal(False),
                      replay=lambda m: replay_entry(masks, [model_vals(m, geo)], 0, 0), axioms=False)
            continue
        flags = lgs_flags(geo, p.pc, pre)
        for i in range(N):
            for j in range(N):
                lhs = z(Sym.lift(M[i, j]).re)
                orc = geo.oracle_entry(dcut, sl[i], sl[j], range(n_layers), flags)
                rhs = z(orc.re)
                subs = uni.unify(apps_in(lhs) | apps_in(rhs), hyp)
                if subs:
                    lhs = z3.substitute(lhs, *subs)
                    rhs = z3.substitute(rhs, *subs)
                lhs = resolve_bitor(ctx, hyp, lhs)
                name = "path%d entry(%d,%d) [%s%d%s x %s%d%s] = covariance of the two slopes" % (
                    pi, i, j, "xy"[sl[i][1]], sl[i][0], list(sl[i][2]), "xy"[sl[j][1]], sl[j][0], list(sl[j][2]))
                rp = lambda m, i=i, j=j: replay_entry(masks, [model_vals(m, geo), generic_vals(geo, 1), generic_vals(geo, 2)], i, j)
                ctx.prove(name, hyp, lhs == rhs, replay=rp, timeout_ms=20000)
        ctx.prove("path%d guard: preconditions satisfiable" % pi, hyp, z3.BoolVal(False), expect="sat", kind="vacuity", axioms=False)
        # sensitivity: the oracle with a halved sub-aperture size must be refutable for some entry
        lhs = z(Sym.lift(M[0, 0]).re)
        ctx.prove("path%d guard: doubled entry is refutable" % pi, hyp + [lhs != 0], lhs == 2 * lhs, expect="sat", kind="sensitivity")
    ctx.bounds["solver_proved_argument_merges"] = uni.merges
    ctx.bounds["structure_function_applications"] = len(dcut.apps)
    # translation validation: symbolic entries (with the real structure function as D) vs the real matrix
    vals = generic_vals(geo, 7)
    try:
        Mr, _ = concrete_matrix(vals, masks)
        Or = concrete_oracle(vals, masks)
        ctx.validate("float64 oracle vs real code on a co-aligned check is done in case 'oracle-validation'", [0], [0])
    except Exception:
        pass


def case_oracle_validation(ctx):
    """the float64 oracle used by the replays agrees with the real code where the code is known to be right
    (equal co-aligned symmetric sensors) - validates the oracle itself"""
    masks = [numpy.ones((2, 2)), numpy.ones((2, 2))]
    geo = Geometry(masks, 1)
    vals = generic_vals(geo, 3)
    vals["d"] = [vals["d"][0]] * 2
    vals["alt"] = [vals["alt"][0]] * 2
    vals["gs"] = [vals["gs"][0]] * 2
    M, _ = concrete_matrix(vals, masks)
    O = concrete_oracle(vals, masks)
    ctx.encoded(_sc().CovarianceMatrix.make_covariance_matrix)
    ctx.validate("float64 oracle vs real make_covariance_matrix (co-aligned equal sensors)", O / numpy.max(numpy.abs(O)), M / numpy.max(numpy.abs(O)), tol=1e-5)
    ctx.paths += 1
    ctx.prove("guard: trivially satisfiable", [], z3.BoolVal(False), expect="sat", kind="vacuity", axioms=False)


def case_rebuild(ctx, mask_names, lgs):
    """guide-star positions given as an ndarray; the matrix is built twice on the same object and once more on a new
    object made from the same arrays: every build equals the oracle and the caller's arrays are unchanged"""
    sc = _sc()
    masks = [numpy.array(MASKS[m]) for m in mask_names]
    n = len(masks)
    geo = Geometry(masks, 1, ngs=[w for w in range(n) if not lgs[w]])
    pre = geo.pre() + [z(a.re) > 0 for a in geo.alt if isinstance(a, Sym)]
    ctx.encoded(sc.CovarianceMatrix.__init__, sc.CovarianceMatrix.make_covariance_matrix)
    ctx.bounds.update(masks=mask_names, guide_stars=["LGS" if f else "NGS" for f in lgs], history="build, build again, new object from the same argument arrays, build")
    dcut = DCut()
    gs_arr = core.obj(numpy.array([[p[0], p[1]] for p in geo.gs], dtype=object))
    d_arr = core.obj(numpy.array(geo.d, dtype=object))
    wv_arr = core.obj(numpy.array(geo.wv, dtype=object))
    snap = [(a, [e for e in a.flat]) for a in (gs_arr, d_arr, wv_arr)]

    def go():
        with npx.symbolic(sc, extra={sc.__name__: {"structure_function_vk": dcut}}):
            a = list(geo.args())
            a[3], a[5], a[6] = d_arr, gs_arr, wv_arr
            cm = sc.CovarianceMatrix(*a)
            m1 = numpy.asarray(cm.make_covariance_matrix(), dtype=object).copy()
            m2 = numpy.asarray(cm.make_covariance_matrix(), dtype=object).copy()
            cm2 = sc.CovarianceMatrix(*a)
            m3 = numpy.asarray(cm2.make_covariance_matrix(), dtype=object).copy()
            unchanged = all(all(x is y for x, y in zip(arr.flat, elems)) for arr, elems in snap)
            return m1, m2, m3, unchanged
    paths, ex = core.run_paths(go, pre)
    ctx.explored(ex, len(paths))
    sl = geo.slopes()
    N = len(sl)
    uni = Unifier(ctx, dcut, pre, geo.params())
    for pi, p in enumerate(paths):
        if p.exc is not None:
            ctx.prove("path%d raises %s" % (pi, type(p.exc).__name__), pre + p.pc, z3.BoolVal(False), replay=lambda m: (True, dict(what="raises %r" % (p.exc,))), axioms=False)
            continue
        hyp = pre + p.pc
        m1, m2, m3, unchanged = p.out
        flags = lgs_flags(geo, p.pc, pre)
        rp = lambda m: _replay_rebuild(masks, [model_vals(m, geo), generic_vals(geo, 1)])
        ctx.prove("path%d: the caller's argument arrays are unchanged by the builds" % pi, hyp, z3.BoolVal(bool(unchanged)), replay=rp, axioms=False)
        for which, M in (("second build on the same object", m2), ("build on a new object from the same arrays", m3)):
            for i in range(N):
                for j in range(N):
                    lhs = z(Sym.lift(M[i, j]).re)
                    rhs = z(geo.oracle_entry(dcut, sl[i], sl[j], range(1), flags).re)
                    subs = uni.unify(apps_in(lhs) | apps_in(rhs), hyp)
                    if subs:
                        lhs, rhs = z3.substitute(lhs, *subs), z3.substitute(rhs, *subs)
                    lhs = resolve_bitor(ctx, hyp, lhs)
                    ctx.prove("path%d %s: entry(%d,%d) = covariance of the two slopes" % (pi, which, i, j), hyp, lhs == rhs, replay=rp, timeout_ms=20000)


def _replay_rebuild(masks, vals_list):
    sc = _sc()
    last = None
    for vals in vals_list:
        n = len(masks)
        gs = numpy.array(vals["gs"], dtype=float)
        d = numpy.array(vals["d"], dtype=float)
        wv = numpy.array(vals["wv"], dtype=float)
        keep = [gs.copy(), d.copy(), wv.copy()]
        args = (n, [numpy.asarray(m, dtype=float) for m in masks], vals["D"], d, list(vals["alt"]), gs, wv, 1, [vals["h"][0]], [vals["r0"][0]], [vals["L0"][0]])
        O = concrete_oracle(vals, masks, [0])
        cm = sc.CovarianceMatrix(*args)
        m1 = numpy.array(cm.make_covariance_matrix(), dtype=float)
        m2 = numpy.array(cm.make_covariance_matrix(), dtype=float)
        m3 = numpy.array(sc.CovarianceMatrix(*args).make_covariance_matrix(), dtype=float)
        scale = float(numpy.max(numpy.abs(O))) or 1.0
        errs = [float(numpy.max(numpy.abs(M - O))) / scale for M in (m1, m2, m3)]
        changed = not (numpy.array_equal(gs, keep[0]) and numpy.array_equal(d, keep[1]) and numpy.array_equal(wv, keep[2]))
        last = dict(what="builds 1/2/3 differ from the oracle by %s (relative to the largest entry); argument arrays modified: %s" % (errs, changed), geometry=vals)
        if changed or any((not numpy.isfinite(e)) or e > 2e-3 for e in errs):
            return True, last
    return False, last


def case_additivity(ctx, mask_names, lgs):
    sc = _sc()
    masks = [numpy.array(MASKS[m]) for m in mask_names]
    n = len(masks)
    geo = Geometry(masks, 2, ngs=[w for w in range(n) if not lgs[w]])
    pre = geo.pre() + [z(a.re) > 0 for a in geo.alt if isinstance(a, Sym)]
    ctx.encoded(sc.CovarianceMatrix.make_covariance_matrix)
    ctx.bounds.update(masks=mask_names, layers=2, guide_stars=["LGS" if f else "NGS" for f in lgs])
    dcut = DCut()
    both = build(ctx, geo, dcut, pre)
    l0 = build(ctx, geo, dcut, pre, layers=[0])
    l1 = build(ctx, geo, dcut, pre, layers=[1])
    uni = Unifier(ctx, dcut, pre, geo.params())
    for pi in range(len(both)):
        if both[pi].exc or l0[pi].exc or l1[pi].exc:
            continue
        hyp = pre + both[pi].pc
        A, B, C = both[pi].out, l0[pi].out, l1[pi].out
        for i in range(A.shape[0]):
            for j in range(A.shape[1]):
                t = [z(Sym.lift(X[i, j]).re) for X in (A, B, C)]
                subs = uni.unify(apps_in(t[0]) | apps_in(t[1]) | apps_in(t[2]), hyp)
                if subs:
                    t = [z3.substitute(x, *subs) for x in t]
                t = [resolve_bitor(ctx, hyp, x) for x in t]
                rp = lambda m, i=i, j=j: _replay_add(masks, [model_vals(m, geo), generic_vals(geo, 1)], i, j)
                ctx.prove("path%d entry(%d,%d): M(layers 0,1) = M(layer 0) + M(layer 1)" % (pi, i, j), hyp, t[0] == t[1] + t[2], replay=rp, timeout_ms=20000)


def _replay_add(masks, vals_list, i, j):
    last = None
    for vals in vals_list:
        A, _ = concrete_matrix(vals, masks)
        B, _ = concrete_matrix(vals, masks, [0])
        C, _ = concrete_matrix(vals, masks, [1])
        scale = float(numpy.max(numpy.abs(A))) or 1.0
        err = abs(A[i, j] - B[i, j] - C[i, j]) / scale
        last = dict(what="matrix not additive over layers at entry (%d,%d)" % (i, j), geometry=vals, rel_err=err)
        if not numpy.isfinite(err) or err > 1e-4:
            return True, last
    return False, last


def case_scaling(ctx, mask_names):
    """(d): D(c r0) = c^(-5/3) D(r0) on the real structure function; entries linear in D with r0-free coefficients;
    wavelength bilinearity of the matrix"""
    sc = _sc()
    masks = [numpy.array(MASKS[m]) for m in mask_names]
    n = len(masks)
    sep, r0, L0, c = var("sep"), var("r0"), var("L0"), var("c")
    pre0 = [z(v.re) > 0 for v in (sep, r0, L0, c)]
    ctx.encoded(sc.structure_function_vk, sc.CovarianceMatrix.make_covariance_matrix)
    ctx.bounds.update(masks=mask_names)
    with npx.symbolic(sc):
        a = sc.structure_function_vk(sep, r0 * c, L0)
        b = sc.structure_function_vk(sep, r0, L0)
    ctx.paths += 1
    ctx.prove("structure_function_vk(sep, c r0, L0) = c^(-5/3) structure_function_vk(sep, r0, L0)", pre0,
              conj(eqs(a, b * core.rat_pow(c, Fr(-5, 3)))), timeout_ms=60000,
              replay=lambda m: _replay_sfscale(m(sep), m(r0), m(L0), m(c)), witness_terms=dict(sep=sep, r0=r0, L0=L0, c=c))
    geo = Geometry(masks, 1)
    pre = geo.pre() + [z(a_.re) > 0 for a_ in geo.alt if isinstance(a_, Sym)]
    dcut = DCut()
    base = build(ctx, geo, dcut, pre)
    k = var("k")
    pre_k = pre + [z(k.re) > 0]
    scaled = build(ctx, geo, dcut, pre_k, wv_scale=[k] + [Sym(1)] * (n - 1))
    uni = Unifier(ctx, dcut, pre, geo.params())
    sl = geo.slopes()
    r0names = set(str(r.re) for r in geo.r0)
    for pi in range(len(base)):
        if base[pi].exc or scaled[pi].exc:
            continue
        hyp = pre_k + base[pi].pc
        A, S = base[pi].out, scaled[pi].out
        for i in range(A.shape[0]):
            for j in range(A.shape[1]):
                ta = z(Sym.lift(A[i, j]).re)
                ts = z(Sym.lift(S[i, j]).re)
                subs = uni.unify(apps_in(ta) | apps_in(ts), hyp)
                if subs:
                    ta, ts = z3.substitute(ta, *subs), z3.substitute(ts, *subs)
                ta, ts = resolve_bitor(ctx, hyp, ta), resolve_bitor(ctx, hyp, ts)
                f = Sym(1)
                if sl[i][0] == 0:
                    f = f * k
                if sl[j][0] == 0:
                    f = f * k
                rp = lambda m, i=i, j=j: _replay_wv(masks, generic_vals(geo, 1), i, j, sl)
                ctx.prove("path%d entry(%d,%d) scales with the product of the two sensors' wavelengths" % (pi, i, j), hyp, ts == ta * z(f.re), replay=rp, timeout_ms=20000)
                # r0 enters only through the structure-function applications
                names = set()
                core._consts(ta, names)
                free_r0 = [nm for nm in names if nm in r0names]
                ctx.prove("path%d entry(%d,%d) is linear in D with r0-free coefficients" % (pi, i, j), [], z3.BoolVal(not free_r0),
                          replay=lambda m: (True, dict(what="r0 occurs outside the structure function")), axioms=False)


def _replay_sfscale(sep, r0, L0, c):
    sc = _sc()
    a = sc.structure_function_vk(sep, r0 * c, L0)
    b = sc.structure_function_vk(sep, r0, L0) * c ** (-5. / 3.)
    e = abs(a - b) / max(abs(b), 1e-300)
    return e > 1e-9, dict(what="structure function does not scale as r0^(-5/3)", sep=sep, r0=r0, L0=L0, c=c, got=float(a), want=float(b))


def _replay_wv(masks, vals, i, j, sl):
    A, _ = concrete_matrix(vals, masks)
    v2 = dict(vals)
    v2["wv"] = [vals["wv"][0] * 1.7] + list(vals["wv"][1:])
    S, _ = concrete_matrix(v2, masks)
    f = (1.7 if sl[i][0] == 0 else 1.0) * (1.7 if sl[j][0] == 0 else 1.0)
    scale = float(numpy.max(numpy.abs(A))) or 1.0
    err = abs(S[i, j] - f * A[i, j]) / scale
    return err > 1e-4, dict(what="entry does not scale with the product of the wavelengths", i=i, j=j, rel_err=err)


def build_cases(tier):
    cases = [("oracle-validation", case_oracle_validation, {})]
    E = []
    # co-aligned equal sensors, general two-sensor systems (LGS/NGS mixes), asymmetric masks, unequal counts
    E.append((["full2", "full2"], 1, [True, True], dict(shared_d=True, shared_alt=True, shared_gs=True)))
    E.append((["full2", "full2"], 1, [True, True], {}))
    E.append((["row", "col"], 1, [True, False], {}))
    E.append((["L"], 1, [True], {}))
    E.append((["L", "one"], 2, [False, True], {}))
    E.append((["one", "row"], 1, [False, False], {}))
    if tier == "thorough":
        E.append((["full2", "L"], 2, [True, True], {}))
        E.append((["diag", "corner", "one"], 1, [True, False, True], {}))
        E.append((["plus3"], 1, [True], {}))
        E.append((["asym3", "one"], 1, [True, True], {}))
        E.append((["full2", "full2"], 2, [False, True], {}))
        E.append((["one", "one", "one"], 2, [True, True, False], {}))
    for mk, nl, lgs, kw in E:
        nm = "entries/%s/layers=%d/%s%s" % ("+".join(mk), nl, "".join("L" if f else "N" for f in lgs), "/co-aligned" if kw else "")
        cases.append((nm, case_entries, dict(mask_names=mk, n_layers=nl, lgs=lgs, **kw)))
    cases.append(("rebuild/row+one/LN", case_rebuild, dict(mask_names=["row", "one"], lgs=[True, False])))
    cases.append(("additivity/row+one", case_additivity, dict(mask_names=["row", "one"], lgs=[True, False])))
    cases.append(("scaling/row+one", case_scaling, dict(mask_names=["row", "one"])))
    if tier == "thorough":
        cases.append(("additivity/L+row", case_additivity, dict(mask_names=["L", "row"], lgs=[True, True])))
        cases.append(("scaling/L+one", case_scaling, dict(mask_names=["L", "one"])))
    return cases


if __name__ == "__main__":
    sys.exit(harness.main("C01", build_cases, FILES))
