"""C04  Infinite phase screen rows follow the exact conditional von Karman law.

The real PhaseScreenVonKarman / PhaseScreenKolmogorov constructors (set_X_coords, set_stencil_coords,
calc_seperations with the numba kernel's Python source, make_covmats, makeAMatrix, makeBMatrix) and
get_new_row / add_row run symbolically: pixel_scale, r0, L0, the screen contents and the innovation are
symbolic; nx_size / n_columns / stencil_length_factor are concrete per case.  turb.phase_covariance is a
cut-point (arbitrary function of squared separation, arguments merged by solver-proved equalities);
cho_factor/cho_solve = adjugate*dinv; numpy.linalg.svd = spectral-factorisation stub.
Decided: (a) the four covariance blocks = c(true pixel separation) for the stencil points the code later reads
and the new row at row -1; (b) A Cov_zz = Cov_xz; (c) A Cov_zz A^T + B B^T = Cov_xx split at the SVD cut-point;
(d) the row produced by add_row() is A Z + B b (Fried: A (Z-ref) + B b + ref) with Z read at the stencil
coordinates and b the generator's next nx draws; (e) Fried: adding a constant to the screen adds it to the row;
(h) the same for a second screen built after one with another r0 (no state shared between instances).
"""
import sys

from .common import *  # noqa: F401,F403
from .common import numpy, z3, core, npx, harness, Sym, St, Fr, z, var, symarr, eqs, conj, all_eq
from .covcommon import Unifier, apps_in
from .screencommon import _ips, TurbCut, ScreenStub, make_screen, with_screen_env, oracle_cov, unified

FILES = ["aotools/turbulence/infinitephasescreen.py", "aotools/turbulence/turb.py"]


class MatGoal:
    """goal A == B (entrywise) together with the defining axioms of its cone of influence, all rewritten with
    the solver-proved merges of covariance applications"""

    def __init__(self, goal, axioms):
        self.goal = goal
        self.axioms = axioms


def mat_eq(ctx, uni, hyp, A, B):
    A = numpy.asarray(A, dtype=object)
    B = numpy.asarray(B, dtype=object)
    if A.shape != B.shape:
        return MatGoal(z3.BoolVal(False), [])
    ts = []
    for i in numpy.ndindex(*A.shape):
        ts.append(z(Sym.lift(A[i]).re))
        ts.append(z(Sym.lift(B[i]).re))
    ax = core.axioms_for(ts)
    allt = unified(ctx, uni, hyp, *(ts + ax))
    ts2, ax2 = allt[:len(ts)], allt[len(ts):]
    return MatGoal(conj([ts2[2 * k] == ts2[2 * k + 1] for k in range(len(ts2) // 2)]), ax2)


def prove_mat(ctx, name, hyp, mg, **kw):
    return ctx.prove(name, hyp, mg.goal, extra_axioms=mg.axioms, axioms=False, **kw)


# ------------------------------------------------------------------ replay on the real code
def replay_screen(kind, nx, param, vals, history_kind=None, state=None):
    import copy
    ips = _ips()
    import aotools.turbulence.turb as turb
    cls = ips.PhaseScreenVonKarman if kind == "vk" else ips.PhaseScreenKolmogorov
    kw = dict(n_columns=param) if kind == "vk" else dict(stencil_length_factor=param)
    ps, r0, L0 = vals["ps"], vals["r0"], vals["L0"]
    if history_kind is not None:
        hp = dict(ps=ps, r0=r0, L0=L0)
        hp[history_kind] = hp[history_kind] * 2.0
        cls(nx, hp["ps"], hp["r0"], hp["L0"], random_seed=3, **kw)
    try:
        scr = cls(nx, ps, r0, L0, random_seed=11, **kw)
    except Exception as e:
        return False, dict(note="construction fails for this witness (%s: %s): outside the property's domain" % (type(e).__name__, e), params=vals)
    sten = [tuple(int(v) for v in c) for c in scr.stencil_coords]
    pts = sten + [(-1, j) for j in range(scr.nx_size)]
    P = numpy.array(pts, dtype=float) * ps
    sep = numpy.sqrt(((P[:, None, :] - P[None, :, :]) ** 2).sum(-1))
    cov = numpy.asarray(turb.phase_covariance(sep, r0, L0), dtype=float)
    ns = len(sten)
    zz, xx, zx, xz = cov[:ns, :ns], cov[ns:, ns:], cov[:ns, ns:], cov[ns:, :ns]
    A, B = numpy.asarray(scr.A_mat, dtype=float), numpy.asarray(scr.B_mat, dtype=float)
    scale = float(numpy.max(numpy.abs(xx)))
    eA = float(numpy.max(numpy.abs(A.dot(zz) - xz))) / scale
    eB = float(numpy.max(numpy.abs(A.dot(zz).dot(A.T) + B.dot(B.T) - xx))) / scale
    if state is not None:
        # the witness's screen contents (the row law holds from ANY state of the screen, not only library-generated ones)
        st = numpy.asarray(state, dtype=float)
        if st.shape == numpy.shape(scr._scrn) and numpy.all(numpy.isfinite(st)):
            scr._scrn = numpy.array(st, dtype=numpy.asarray(scr._scrn).dtype)
    R2 = copy.deepcopy(scr._R)
    b = R2.normal(0, 1, size=scr.nx_size)
    before = numpy.array(scr._scrn, dtype=float)
    new = numpy.array(scr.add_row(), dtype=float)
    Z = numpy.array([before[p] for p in sten])
    if kind == "vk":
        want = A.dot(Z) + B.dot(b)
    else:
        ref = before[1, 1]
        want = A.dot(Z - ref) + B.dot(b) + ref
    got = numpy.array(scr._scrn, dtype=float)[0]
    eR = float(numpy.max(numpy.abs(got - want))) / max(1.0, float(numpy.max(numpy.abs(want))))
    shift = float(numpy.max(numpy.abs(numpy.array(scr._scrn, dtype=float)[1:] - before[:scr.stencil_length - 1])))
    bad = (not numpy.isfinite(eA + eB + eR)) or eA > 2e-3 or eB > 2e-3 or eR > 1e-6 or shift > 0
    return bad, dict(what="A Czz = Cxz rel.err %.2e; A Czz A^T + B B^T = Cxx rel.err %.2e; row = A Z + B b rel.err %.2e" % (eA, eB, eR),
                     kind=kind, nx=nx, param=param, params=vals, history=history_kind)


def generic_params(k=0):
    return [dict(ps=0.1, r0=0.16, L0=20.0), dict(ps=0.25, r0=0.1, L0=8.0)][k % 2]


# ------------------------------------------------------------------ the case
def case_screen(ctx, kind, nx, param, history, geometry_only=False):
    ips = _ips()
    ps, r0, L0 = var("ps"), var("r0"), var("L0")
    pre = [z(ps.re) > 0, z(r0.re) > 0, z(L0.re) > 0]
    names = dict(ps=ps, r0=r0, L0=L0)
    ctx.encoded(ips.PhaseScreen.set_X_coords, ips.PhaseScreen.set_stencil_coords, ips.PhaseScreen.calc_seperations, ips.calc_seperations_fast,
                ips.PhaseScreen.make_covmats, ips.PhaseScreen.makeAMatrix, ips.PhaseScreen.makeBMatrix, ips.PhaseScreen.get_new_row,
                ips.PhaseScreen.add_row, ips.PhaseScreenVonKarman.__init__ if kind == "vk" else ips.PhaseScreenKolmogorov.__init__)
    ctx.bounds.update(variant="von Karman" if kind == "vk" else "Kolmogorov (Fried stencil)", requested_nx=nx,
                      n_columns_or_length_factor=param, parameters="pixel_scale, r0, L0 symbolic > 0", history=history)
    ctx.assume("turb.phase_covariance is a cut-point: an arbitrary function of (squared separation, r0, L0); its formula is C08's subject")
    ctx.assume("Cholesky inverse and SVD by contract (nonsingular Cov_zz; U diag(w) U^T = its argument, w >= 0)")
    npx.INV_LOG.clear()
    npx.SVD_LOG.clear()
    npx.LAZY_INV[0] = geometry_only
    if geometry_only:
        ctx.bounds["scope"] = "covariance geometry (a) and row synthesis (d, e) only: A is an opaque matrix at this size"
    turb = TurbCut()
    hist_r0 = None
    if history:
        # an earlier instance with the same layout and one parameter different (history = True/"r0", "ps", "L0")
        hk = "r0" if history is True else history
        hv = var(hk + "h")
        base = dict(r0=r0, ps=ps, L0=L0)
        pre.append(z(hv.re) > 0)
        pre.append(z(hv.re) != z(base[hk].re))
        names[hk + "h"] = hv
        if hk == "r0":
            hist_r0 = hv
        hp = dict(base)
        hp[hk] = hv
        make_screen(kind, nx, param, hp["ps"], hp["r0"], hp["L0"], seed=None, turb=turb)
        n_inv0, n_svd0 = len(npx.INV_LOG), len(npx.SVD_LOG)
    else:
        n_inv0 = n_svd0 = 0
    stream = npx.Stream(z3.Real("stream!injected"))
    scr, turb, stub = make_screen(kind, nx, param, ps, r0, L0, seed=stream, turb=turb)
    ctx.paths += 1
    ctx.bounds.update(internal_nx=int(scr.nx_size), stencil_points=int(scr.n_stencils), structure_function_applications=len(turb.cut.apps))
    uni = Unifier(ctx, turb.cut, pre, [ps, r0, L0] + ([names[k] for k in names if k.endswith("h")]))
    inv_ax = [z(d.re) != 0 for (_, d, _, _) in npx.INV_LOG if not d.isconc()]
    hyp = pre + inv_ax

    def rp(m):
        vals = dict(ps=m(ps), r0=m(r0), L0=m(L0))
        outs = None
        for v in [vals, generic_params(0), generic_params(1)]:
            bad, detail = harness.pristine_call(replay_screen, kind, nx, param, v, (("r0" if history is True else history) if history else None))
            outs = detail
            if bad:
                return True, detail
        return False, outs
    # (a) geometry: stencil points the code reads + new row at row -1
    sten = [tuple(int(v) for v in c) for c in numpy.asarray(scr.stencil_coords)]
    X = [(-1, j) for j in range(int(scr.nx_size))]
    pts = sten + X
    ns = len(sten)
    O = oracle_cov(turb.cut, pts, ps, r0, L0)
    blocks = dict(zz=(O[:ns, :ns], scr.cov_mat_zz), xx=(O[ns:, ns:], scr.cov_mat_xx), zx=(O[:ns, ns:], scr.cov_mat_zx), xz=(O[ns:, :ns], scr.cov_mat_xz))
    for nm, (want, got) in blocks.items():
        prove_mat(ctx, "(a) Cov_%s = c(true pixel separations) for the stencil points read by add_row and the new row" % nm, hyp,
                  mat_eq(ctx, uni, hyp, got, want), replay=rp, witness_terms=names, timeout_ms=60000)
    A, B = numpy.asarray(scr.A_mat, dtype=object), numpy.asarray(scr.B_mat, dtype=object)
    Ozz, Oxx, Ozx, Oxz = O[:ns, :ns], O[ns:, ns:], O[:ns, ns:], O[ns:, :ns]
    # (b) against the ORACLE covariance (not the code's own blocks)
    if not geometry_only:
      prove_mat(ctx, "(b) A Cov_zz = Cov_xz", hyp, mat_eq(ctx, uni, hyp, A.dot(Ozz), Oxz), replay=rp, witness_terms=names, timeout_ms=120000)
    # (c) split at the SVD cut-point
    if geometry_only:
        pass
    elif len(npx.SVD_LOG) != n_svd0 + 1:
        ctx.prove("(c) B comes from one SVD (a cached B would not)", hyp, z3.BoolVal(False), replay=rp, witness_terms=names, axioms=False)
        Msvd = Oxx - A.dot(Ozx)
        BBt = B.dot(B.T)
        prove_mat(ctx, "(c) B B^T = Cov_xx - A Cov_zx", hyp, mat_eq(ctx, uni, hyp, BBt, Msvd), replay=rp, witness_terms=names, timeout_ms=120000)
    else:
        rec = npx.SVD_LOG[-1]
        U, sig, Msvd = rec["U"], rec["sigma"], rec["M"]
        n = len(sig)
        UWU = numpy.empty((n, n), dtype=object)
        for i in range(n):
            for j in range(n):
                acc = Sym(0)
                for k in range(n):
                    acc = acc + U[i, k] * Sym(sig[k] * sig[k]) * U[j, k]
                UWU[i, j] = acc
        ctx.prove("(c1) B B^T = U diag(w) U^T (identity)", hyp, all_eq(B.dot(B.T), UWU), replay=rp, witness_terms=names, timeout_ms=120000, axioms=False)
        # A Czz A^T + B B^T = Cxx through the lemma chain  A Czz A^T = (A Czz) A^T = Cxz A^T [b] = (A Czx)^T [c4] = A Czx [c3],
        # B B^T = U diag(w) U^T [c1] = argument of the SVD [contract] = Cxx - A Czx [c2]
        prove_mat(ctx, "(c2) matrix handed to the SVD = Cov_xx - A Cov_zx", hyp, mat_eq(ctx, uni, hyp, Msvd, Oxx - A.dot(Ozx)),
                  replay=rp, witness_terms=names, timeout_ms=120000)
        AZ = A.dot(Ozx)
        prove_mat(ctx, "(c3) A Cov_zx is symmetric", hyp, mat_eq(ctx, uni, hyp, AZ, AZ.T), replay=rp, witness_terms=names, timeout_ms=120000)
        prove_mat(ctx, "(c4) Cov_zx = Cov_xz^T", hyp, mat_eq(ctx, uni, hyp, Ozx, Oxz.T), replay=rp, witness_terms=names, timeout_ms=60000)
        if ns <= 6:
            prove_mat(ctx, "(c5) direct cross-check: A Cov_zz A^T + [matrix handed to the SVD] = Cov_xx", hyp,
                      mat_eq(ctx, uni, hyp, A.dot(Ozz).dot(A.T) + Msvd, Oxx), replay=rp, witness_terms=names, timeout_ms=120000)
    # (d) row synthesis from an arbitrary screen state
    before = numpy.asarray(scr._scrn, dtype=object).copy()
    idx0 = stream.index
    with with_screen_env(turb, stub):
        out = scr.add_row()
    after = numpy.asarray(scr._scrn, dtype=object)
    nxs = int(scr.nx_size)
    b = numpy.array([Sym(npx._DRAW(stream.ident, idx0 + k)) for k in range(nxs)], dtype=object)
    Z = numpy.array([before[p] for p in sten], dtype=object)
    if kind == "vk":
        want_row = A.dot(Z) + B.dot(b)
    else:
        ref = before[1, 1]
        want_row = A.dot(Z - ref) + B.dot(b) + ref
    def rp_d(m):
        bad, detail = rp(m)
        if bad:
            return bad, detail
        try:
            state = numpy.asarray(m(before), dtype=float)
        except Exception:
            return bad, detail
        # the covariance function is a cut-point, so the model's scale of the phase need not be the real one: the witness
        # state is also tried magnified (the row law is affine in the state - any finite state is in the domain)
        for mag in (1.0, 1e3, 1e6):
            bad, detail = harness.pristine_call(replay_screen, kind, nx, param, dict(ps=m(ps), r0=m(r0), L0=m(L0)),
                                                (("r0" if history is True else history) if history else None), state * mag + (mag - 1.0))
            if bad:
                detail["screen_state"] = "witness state x %g" % mag
                return bad, detail
        return bad, detail
    ctx.prove("(d) new row = A Z + B b with Z at the stencil coordinates and b the next nx draws%s" % ("" if kind == "vk" else " (relative to the reference pixel)"),
              hyp, all_eq(after[0], want_row), replay=rp_d, witness_terms=names, timeout_ms=60000)
    ctx.prove("(d) the generator advanced by exactly nx draws", [], z3.BoolVal(stream.index == idx0 + nxs), replay=rp, axioms=False)
    if kind != "vk":
        kap = var("kappa")
        scr._scrn = core.obj(before + kap)
        stream.index = idx0
        with with_screen_env(turb, stub):
            scr.add_row()
        after2 = numpy.asarray(scr._scrn, dtype=object)
        ctx.prove("(e) adding a constant to the whole screen adds exactly that constant to the new row", hyp, all_eq(after2[0], after[0] + kap),
                  replay=rp, witness_terms=names, timeout_ms=60000)
    ctx.prove("guard: preconditions and nonsingularity satisfiable", hyp, z3.BoolVal(False), expect="sat", kind="vacuity")
    if not geometry_only:
      prove_mat(ctx, "guard: 2A in the normal equations is refutable", hyp + [z(Sym.lift(Oxz[0, 0]).re) != 0], mat_eq(ctx, uni, hyp, (A * 2).dot(Ozz), Oxz), expect="sat", kind="sensitivity", timeout_ms=60000)
    ctx.bounds["solver_proved_argument_merges"] = uni.merges


def case_own_generator(ctx, kind):
    """with an integer seed the initial screen must be drawn from the instance's own generator (the one the row
    innovations come from): otherwise the innovation b repeats draws that produced the stencil values Z"""
    ips = _ips()
    ps, r0, L0, seed = var("ps"), var("r0"), var("L0"), var("seed")
    pre = [z(ps.re) > 0, z(r0.re) > 0, z(L0.re) > 0, z(seed.re) >= 0]
    ctx.encoded(ips.PhaseScreen.make_initial_screen, ips.PhaseScreen.get_new_row)
    ctx.bounds.update(variant=kind, seed="symbolic integer", nx=2)
    npx.LAZY_INV[0] = True

    def go():
        scr, turb, stub = make_screen(kind, 2, 1 if kind != "vk" else 2, ps, r0, L0, seed=seed)
        return scr, stub
    paths, ex = core.run_paths(go, pre)
    ctx.explored(ex, len(paths))
    for pi, p in enumerate(paths):
        if p.exc is not None:
            continue
        scr, stub = p.out
        ok = len(stub.calls) == 1 and (stub.calls[0]["seed"] is scr._R)
        ctx.prove("path%d: the initial screen is drawn from the generator that also supplies the row innovations" % pi, pre + p.pc, z3.BoolVal(bool(ok)),
                  replay=lambda m: harness.pristine_call(_replay_own_generator, kind, 5), axioms=False)


def _replay_own_generator(kind, seed):
    ips = _ips()
    import aotools.turbulence.phasescreen as psm
    seen = []
    real = psm.ft_phase_screen

    class Rec:
        def __getattr__(self, k):
            return getattr(psm, k)

        @staticmethod
        def ft_phase_screen(*a, **k):
            seen.append(k.get("seed"))
            return real(*a, **k)
    old = ips.phasescreen
    ips.phasescreen = Rec()
    try:
        scr = ips.PhaseScreenVonKarman(8, 0.1, 0.2, 20.0, random_seed=seed, n_columns=2) if kind == "vk" else ips.PhaseScreenKolmogorov(8, 0.1, 0.2, 20.0, random_seed=seed, stencil_length_factor=1)
    finally:
        ips.phasescreen = old
    bad = not (len(seen) == 1 and seen[0] is scr._R)
    return bad, dict(what="initial screen is not drawn from the instance's generator (seed argument passed on: %r)" % (seen,))


def build_cases(tier):
    cases = []
    L = [("vk", 2, 1), ("vk", 2, 2), ("vk", 3, 1), ("vk", 3, 2), ("fried", 2, 1), ("fried", 3, 1), ("fried", 3, 2), ("fried", 2, 2)]
    if tier == "thorough":
        L += [("vk", 4, 1), ("vk", 4, 2), ("vk", 5, 1)]      # up to 8 stencil points (adjugate 8x8); Fried internal 5 has 11 points: geometry-only below
    for kind, nx, param in L:
        cases.append(("%s/nx=%d/%s=%d" % (kind, nx, "cols" if kind == "vk" else "factor", param), case_screen, dict(kind=kind, nx=nx, param=param, history=False)))
    G = [("fried", 4, 1), ("vk", 4, 2), ("fried", 6, 1)] if tier == "quick" else [("fried", 4, 1), ("fried", 4, 2), ("vk", 4, 2), ("vk", 5, 3), ("fried", 6, 1), ("fried", 7, 1), ("fried", 10, 1)]
    for kind, nx, param in G:
        cases.append(("%s/nx=%d/%s=%d/geometry-and-row" % (kind, nx, "cols" if kind == "vk" else "factor", param), case_screen,
                      dict(kind=kind, nx=nx, param=param, history=False, geometry_only=True)))
    for kind, nx, param in ([("vk", 2, 2), ("fried", 3, 1)] if tier == "quick" else [("vk", 2, 2), ("fried", 3, 1), ("vk", 3, 2), ("fried", 2, 1)]):
        for hk in ("r0", "ps", "L0"):
            cases.append(("%s/nx=%d/%s=%d/after-another-%s" % (kind, nx, "cols" if kind == "vk" else "factor", param, hk), case_screen,
                          dict(kind=kind, nx=nx, param=param, history=hk)))
    cases.append(("own-generator/vk", case_own_generator, dict(kind="vk")))
    cases.append(("own-generator/fried", case_own_generator, dict(kind="fried")))
    return cases


if __name__ == "__main__":
    sys.exit(harness.main("C04", build_cases, FILES))
