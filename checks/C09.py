"""C09  Scaled Fourier transforms are exact inverse pairs obeying Parseval.

Real functions executed symbolically: aotools.fouriertransform.{ft,ift,ft2,ift2,rft,irft,rft2,irft2}
and the same names as exported by the package (`aotools.ft2`, ...), on symbolic complex/real arrays
and a symbolic spacing delta > 0.  numpy.fft.* = exact DFT with algebraic twiddles (stub).
"""
import sys

from .common import *  # noqa: F401,F403
from .common import numpy, z3, core, npx, harness, Sym, St, Fr, z, var, symarr, eqs, conj, all_eq, power

FILES = ["aotools/fouriertransform.py", "aotools/__init__.py", "aotools/turbulence/phasescreen.py",
         "aotools/turbulence/__init__.py"]


def _resolve(where, name):
    import aotools
    import aotools.fouriertransform as ftm
    fn = getattr(aotools if where == "pkg" else ftm, name)
    return fn, sys.modules[fn.__module__]


def _call(where, name, *args):
    fn, mod = _resolve(where, name)
    with npx.symbolic(mod):
        return fn(*args)


def _real_call(where, name, *args):
    fn, _ = _resolve(where, name)
    return fn(*args)


def centred_dft(x, delta, inverse=False, axes=(-1,)):
    """independent oracle: X[m] = delta * sum_n x[n] exp(-2 pi i (n-c)(m-c)/N), c = N//2 (origin at the centre sample)"""
    x = numpy.asarray(x, dtype=object)
    out = x
    for ax in axes:
        a = numpy.moveaxis(out, ax, -1)
        N = a.shape[-1]
        c = N // 2
        res = numpy.empty(a.shape, dtype=object)
        for idx in numpy.ndindex(*a.shape[:-1]):
            for m in range(N):
                acc = Sym(0)
                for n in range(N):
                    k = (n - c) * (m - c)
                    acc = acc + npx.twiddle(N, k if inverse else -k) * a[idx + (n,)]
                res[idx + (m,)] = acc * delta
        out = numpy.moveaxis(res, -1, ax)
    return out


# ------------------------------------------------------------------ concrete replays (real numpy)
def _tol(ref):
    return 1e-9 * max(1.0, float(numpy.max(numpy.abs(ref))) if numpy.size(ref) else 1.0)


def replay_inverse(where, f, g, x, d, N):
    x = numpy.asarray(x)
    try:
        X = _real_call(where, f, x.copy(), d)
        y = _real_call(where, g, numpy.asarray(X).copy(), 1.0 / (N * d))
    except Exception as e:
        return True, dict(what="%s(%s(x)) raises %s: %s" % (g, f, type(e).__name__, e), x=x, delta=d)
    if numpy.shape(y) != x.shape:
        return True, dict(what="%s(%s(x)) has shape %s, input %s" % (g, f, numpy.shape(y), x.shape), x=x, delta=d)
    err = float(numpy.max(numpy.abs(y - x)))
    return err > _tol(x), dict(what="%s(%s(x,d),1/(N d)) != x" % (g, f), max_abs_err=err, x=x, delta=d, N=N)


def _replay_inverse_pure(where, f, g, x, d, N):
    x = numpy.asarray(x, dtype=float)
    d = float(d)
    if not (d > 0) or abs(d - 1.0) < 1e-6:
        d = 0.37
    X = numpy.asarray(_real_call(where, f, x.copy(), d))
    X0 = X.copy()
    try:
        _real_call(where, g, X, 1.0 / (N * d))
    except Exception:
        return False, dict(what="inverse raises (see the round-trip obligation)")
    bad = X.shape != X0.shape or not numpy.array_equal(X, X0)
    return bool(bad), dict(what="%s modifies the spectrum it is given" % g, delta=d, before=X0, after=X)


def replay_parseval(where, f, x, d, N, dims, weights=None):
    x = numpy.asarray(x)
    X = numpy.asarray(_real_call(where, f, x.copy(), d))
    lhs = float(numpy.sum(numpy.abs(x) ** 2)) * d ** dims
    w = 1.0 if weights is None else weights
    rhs = float(numpy.sum(w * numpy.abs(X) ** 2)) * (1.0 / (N * d)) ** dims
    return abs(lhs - rhs) > 1e-9 * max(1.0, abs(lhs)), dict(what="Parseval %s" % f, lhs=lhs, rhs=rhs, x=x, delta=d)


def replay_oracle(where, f, x, d, inverse, axes):
    x = numpy.asarray(x)
    X = numpy.asarray(_real_call(where, f, x.copy(), d))
    ref = x.astype(complex)
    for ax in axes:
        N = x.shape[ax]
        c = N // 2
        n = numpy.arange(N) - c
        M = numpy.exp((2j if inverse else -2j) * numpy.pi * numpy.outer(n, n) / N)
        ref = numpy.moveaxis(numpy.tensordot(numpy.moveaxis(ref, ax, -1), M, axes=([-1], [1])), -1, ax) * d
    if X.shape != ref.shape:
        return True, dict(what="shape", got=X.shape, want=ref.shape)
    err = float(numpy.max(numpy.abs(X - ref)))
    return err > _tol(ref), dict(what="%s differs from the centred DFT (origin at the centre sample)" % f,
                                 max_abs_err=err, x=x, delta=d)


# ------------------------------------------------------------------ cases
def case_1d(ctx, where, N, batch):
    shape = tuple(batch) + (N,)
    fname = "ft" if where == "mod" else "aotools.ft"
    x = symarr("x", shape, cplx=True)
    y = symarr("y", shape, cplx=True)
    d = var("d")
    al, be = core.cvar("al"), core.cvar("be")
    pre = [z(d.re) > 0]
    df = 1 / (d * N)
    ctx.encoded("aotools.fouriertransform.ft", "aotools.fouriertransform.ift") if where == "mod" else ctx.encoded("aotools.ft", "aotools.ift")
    ctx.bounds.update(N=N, batch=list(batch), delta="symbolic > 0", input="symbolic complex")
    X = _call(where, "ft", x, d)
    xb = _call(where, "ift", X, df)
    ctx.prove("ift(ft(x))=x", pre, all_eq(xb, x),
              replay=lambda m: replay_inverse(where, "ft", "ift", m(x), m(d), N), witness_terms=dict(delta=d))
    Xf = symarr("X", shape, cplx=True)
    xi = _call(where, "ift", Xf, d)      # here d plays the role of delta_f
    Xb = _call(where, "ft", xi, df)
    ctx.prove("ft(ift(X))=X", pre, all_eq(Xb, Xf),
              replay=lambda m: replay_inverse(where, "ift", "ft", m(Xf), m(d), N), witness_terms=dict(delta_f=d))
    # linearity
    Y = _call(where, "ft", y, d)
    L = _call(where, "ft", x * al + y * be, d)
    ctx.prove("ft linear", pre, all_eq(L, X * al + Y * be), replay=lambda m: (False, dict(note="linearity witness not replayed")))
    # Parseval
    ctx.prove("Parseval ft", pre, conj(eqs(power(x) * d, power(X) * df)),
              replay=lambda m: replay_parseval(where, "ft", m(x), m(d), N, 1), witness_terms=dict(delta=d))
    # sensitivity guard: a wrong scale must be refutable
    ctx.prove("guard:Parseval with N+1 is refutable", pre + [z(x.flat[0].re) != 0], conj(eqs(power(x) * d, power(X) / (d * (N + 1)))),
              expect="sat", kind="sensitivity")
    # centring: equality with the centred DFT oracle (origin at the centre sample), forward and inverse
    ctx.prove("ft = centred DFT (origin at centre sample)", pre, all_eq(X, centred_dft(x, d)),
              replay=lambda m: replay_oracle(where, "ft", m(x), m(d), False, (-1,)), witness_terms=dict(delta=d))
    ctx.prove("ift = centred inverse DFT", pre, all_eq(xi, centred_dft(Xf, d, inverse=True)),
              replay=lambda m: replay_oracle(where, "ift", m(Xf), m(d), True, (-1,)), witness_terms=dict(delta_f=d))
    # shift theorem: rolling the input by k samples multiplies the spectrum by the linear phase
    c = N // 2
    for k in ([1] if N > 1 else []) + ([N - 1] if N > 2 else []):
        xr = numpy.roll(x, k, axis=-1)
        Xr = _call(where, "ft", xr, d)
        ph = numpy.empty(N, dtype=object)
        for mm in range(N):
            ph[mm] = npx.twiddle(N, -k * (mm - c))
        ctx.prove("shift theorem k=%d" % k, pre, all_eq(Xr, X * ph), replay=lambda m: (False, dict(note="not replayed")))
    if batch:
        g = []
        for b in numpy.ndindex(*batch):
            g += eqs(X[b], _call(where, "ft", x[b], d))
            g += eqs(xi[b], _call(where, "ift", Xf[b], d))
        ctx.prove("ft / ift of a stack = transform of each item", pre, conj(g), replay=lambda m: _replay_batch(where, "ft", m(x), m(d)), witness_terms=dict(delta=d))
    # vacuity guard
    ctx.prove("guard:preconditions satisfiable", pre, z3.BoolVal(False), expect="sat", kind="vacuity", axioms=False)
    _validate(ctx, where, "ft", x, d, X)
    _validate(ctx, where, "ift", Xf, d, xi)


def _validate(ctx, where, name, xs, d, out, real_input=False):
    rng = rng_for("%s%s" % (name, xs.shape))
    xv = rand_real(rng, xs.shape) if real_input else rand_complex(rng, xs.shape)
    dv = 0.75
    a = assign_of(xs, xv)
    a[d.re.decl().name()] = dv
    ctx.validate(name, evaluate(out, a), _real_call(where, name, xv.copy(), dv))


def case_2d(ctx, where, N, batch):
    shape = tuple(batch) + (N, N)
    x = symarr("x", shape, cplx=True)
    d = var("d")
    pre = [z(d.re) > 0]
    df = 1 / (d * N)
    ctx.encoded("aotools.fouriertransform.ft2", "aotools.fouriertransform.ift2") if where == "mod" else ctx.encoded("aotools.ft2", "aotools.ift2")
    ctx.bounds.update(N=N, batch=list(batch), delta="symbolic > 0", input="symbolic complex")
    X = _call(where, "ft2", x, d)
    xb = _call(where, "ift2", X, df)
    ctx.prove("ift2(ft2(x))=x", pre, all_eq(xb, x),
              replay=lambda m: replay_inverse(where, "ft2", "ift2", m(x), m(d), N), witness_terms=dict(delta=d))
    Xf = symarr("X", shape, cplx=True)
    xi = _call(where, "ift2", Xf, d)
    Xb = _call(where, "ft2", xi, df)
    ctx.prove("ft2(ift2(X))=X", pre, all_eq(Xb, Xf),
              replay=lambda m: replay_inverse(where, "ift2", "ft2", m(Xf), m(d), N), witness_terms=dict(delta_f=d))
    ctx.prove("Parseval ft2", pre, conj(eqs(power(x) * d * d, power(X) * df * df)),
              replay=lambda m: replay_parseval(where, "ft2", m(x), m(d), N, 2), witness_terms=dict(delta=d))
    ctx.prove("Parseval ift2", pre, conj(eqs(power(Xf) * d * d, power(xi) * df * df)),
              replay=lambda m: replay_parseval(where, "ift2", m(Xf), m(d), N, 2), witness_terms=dict(delta_f=d))
    ctx.prove("ft2 = centred 2-D DFT", pre, all_eq(X, centred_dft(x, d, axes=(-1, -2))),
              replay=lambda m: replay_oracle(where, "ft2", m(x), m(d), False, (-1, -2)), witness_terms=dict(delta=d))
    ctx.prove("ift2 = centred inverse 2-D DFT", pre, all_eq(xi, centred_dft(Xf, d, inverse=True, axes=(-1, -2))),
              replay=lambda m: replay_oracle(where, "ift2", m(Xf), m(d), True, (-1, -2)), witness_terms=dict(delta_f=d))
    ctx.prove("guard:wrong scale refutable", pre + [z(x.flat[0].re) != 0], all_eq(xb * 2, x), expect="sat", kind="sensitivity")
    if batch:
        g = []
        for b in numpy.ndindex(*batch):
            g += eqs(X[b], _call(where, "ft2", x[b], d))
        ctx.prove("ft2 of a stack = ft2 of each item", pre, conj(g), replay=lambda m: _replay_batch(where, "ft2", m(x), m(d)), witness_terms=dict(delta=d))
    # the contract used by the propagator checks (C10/C11): delta scaling and linearity of the 2-D pair
    one = Sym(1)
    ctx.prove("ft2(x,d) = d^2 ft2(x,1)", pre, all_eq(X, _call(where, "ft2", x, one) * d * d),
              replay=lambda m: (False, dict(note="not replayed")))
    ctx.prove("ift2(X,df) = (N df)^2 ift2(X,1/N)", pre, all_eq(xi, _call(where, "ift2", Xf, one / N) * (d * N) * (d * N)),
              replay=lambda m: (False, dict(note="not replayed")))
    y = symarr("y", shape, cplx=True)
    al, be = core.cvar("al"), core.cvar("be")
    ctx.prove("ft2 linear", pre, all_eq(_call(where, "ft2", x * al + y * be, d), X * al + _call(where, "ft2", y, d) * be),
              replay=lambda m: (False, dict(note="not replayed")))
    ctx.prove("ift2 linear", pre, all_eq(_call(where, "ift2", Xf * al + y * be, d), xi * al + _call(where, "ift2", y, d) * be),
              replay=lambda m: (False, dict(note="not replayed")))
    _validate(ctx, where, "ft2", x, d, X)
    _validate(ctx, where, "ift2", Xf, d, xi)


def _half_weights(N):
    m = N // 2 + 1
    w = numpy.full(m, 2.0)
    w[0] = 1.0
    if N % 2 == 0:
        w[m - 1] = 1.0
    return w


def case_real_1d(ctx, where, N, batch):
    shape = tuple(batch) + (N,)
    x = symarr("x", shape)
    d = var("d")
    pre = [z(d.re) > 0]
    df = 1 / (d * N)
    ctx.encoded("aotools.fouriertransform.rft", "aotools.fouriertransform.irft")
    ctx.bounds.update(N=N, batch=list(batch), delta="symbolic > 0", input="symbolic real")
    H = _call(where, "rft", x, d)
    H_before = numpy.asarray(H, dtype=object).copy()
    try:
        xb = _call(where, "irft", H, df)
        goal = all_eq(xb, x)
    except ValueError:
        goal = z3.BoolVal(False)       # the inverse refuses the half spectrum of this length: decided by the replay
    ctx.prove("irft leaves the half spectrum it is given unchanged", pre, all_eq(numpy.asarray(H, dtype=object), H_before),
              replay=lambda m: _replay_inverse_pure(where, "rft", "irft", m(x), m(d), N), witness_terms=dict(delta=d))
    H = H_before.view(core.SA)
    ctx.prove("irft(rft(x))=x", pre, goal,
              replay=lambda m: replay_inverse(where, "rft", "irft", m(x), m(d), N), witness_terms=dict(delta=d))
    # Parseval on the half spectrum, Hermitian weights (1 for DC/Nyquist, 2 otherwise), on the un-shifted bins
    w = _half_weights(N)
    Hu = numpy.fft.ifftshift(H, axes=(-1,))
    acc = Sym(0)
    for idx in numpy.ndindex(*Hu.shape):
        acc = acc + Sym.lift(Hu[idx]).abs2() * Fr(int(w[idx[-1]]))

    def rp(m):
        ww = numpy.fft.fftshift(_half_weights(N))
        return replay_parseval(where, "rft", m(x), m(d), N, 1, weights=ww)
    ctx.prove("Parseval rft (Hermitian-weighted half spectrum)", pre, conj(eqs(power(x) * d, acc * df)), replay=rp,
              witness_terms=dict(delta=d))
    if batch:
        g = []
        for b in numpy.ndindex(*batch):
            g += eqs(H[b], _call(where, "rft", x[b], d))
        ctx.prove("rft of a stack = rft of each item", pre, conj(g), replay=lambda m: _replay_batch(where, "rft", m(x), m(d)), witness_terms=dict(delta=d))
    _validate(ctx, where, "rft", x, d, H, real_input=True)


def case_real_2d(ctx, where, N, batch):
    shape = tuple(batch) + (N, N)
    x = symarr("x", shape)
    d = var("d")
    pre = [z(d.re) > 0]
    df = 1 / (d * N)
    ctx.encoded("aotools.fouriertransform.rft2", "aotools.fouriertransform.irft2")
    ctx.bounds.update(N=N, batch=list(batch), delta="symbolic > 0", input="symbolic real")
    H = _call(where, "rft2", x, d)
    H_before = numpy.asarray(H, dtype=object).copy()
    try:
        xb = _call(where, "irft2", H, df)
        goal = all_eq(xb, x)
    except ValueError:
        goal = z3.BoolVal(False)
    ctx.prove("irft2 leaves the half spectrum it is given unchanged", pre, all_eq(numpy.asarray(H, dtype=object), H_before),
              replay=lambda m: _replay_inverse_pure(where, "rft2", "irft2", m(x), m(d), N), witness_terms=dict(delta=d))
    H = H_before.view(core.SA)
    ctx.prove("irft2(rft2(x))=x", pre, goal,
              replay=lambda m: replay_inverse(where, "rft2", "irft2", m(x), m(d), N), witness_terms=dict(delta=d))
    if batch:
        g = []
        for b in numpy.ndindex(*batch):
            g += eqs(H[b], _call(where, "rft2", x[b], d))
        ctx.prove("rft2 of a stack = rft2 of each item", pre, conj(g), replay=lambda m: _replay_batch(where, "rft2", m(x), m(d)), witness_terms=dict(delta=d))
    _validate(ctx, where, "rft2", x, d, H, real_input=True)


def _replay_batch(where, f, x, d):
    x = numpy.asarray(x)
    full = numpy.asarray(_real_call(where, f, x.copy(), d))
    nb = x.ndim - (2 if f.endswith("2") else 1)
    bad = False
    for b in numpy.ndindex(*x.shape[:nb]):
        one = numpy.asarray(_real_call(where, f, x[b].copy(), d))
        if one.shape != full[b].shape or float(numpy.max(numpy.abs(one - full[b]))) > _tol(one):
            bad = True
    return bad, dict(what="%s of a stack differs from %s of each item" % (f, f), x=x, delta=d)


def case_exports(ctx):
    """the package must export the Fourier module's transforms (term identity of the callables)"""
    import aotools
    import aotools.fouriertransform as ftm
    ctx.encoded("aotools.__init__ (star-import order)")
    for n in ("ft", "ift", "ft2", "ift2", "rft", "irft", "rft2", "irft2"):
        same = getattr(aotools, n) is getattr(ftm, n)
        # a solver-free fact; recorded as an obligation so that a shadowed export is reported by name
        ctx.prove("aotools.%s is fouriertransform.%s" % (n, n), [], z3.BoolVal(bool(same)),
                  replay=lambda m, n=n: (True, dict(what="aotools.%s is %s.%s, not aotools.fouriertransform.%s" % (
                      n, getattr(aotools, n).__module__, getattr(aotools, n).__name__, n))), axioms=False)
    ctx.paths += 1


def _replay_typed(name, shape, vals, dtype_name):
    """the real transform of a boolean / integer array against the transform of the same values in float64"""
    x = (numpy.abs(numpy.round(numpy.asarray(vals, dtype=float))) % 2).reshape(shape)
    if not x.any():
        x.flat[0] = 1
    if x.all():
        x.flat[-1] = 0
    xt = x.astype(dtype_name)
    a = numpy.asarray(_real_call("mod", name, xt, 0.5))
    b = numpy.asarray(_real_call("mod", name, x.astype(float), 0.5))
    bad = a.shape != b.shape or not numpy.allclose(a, b, rtol=1e-9, atol=1e-12)
    return bool(bad), dict(what="%s of a %s array differs from %s of the same values in float64" % (name, dtype_name, name), x=x, got=a, want=b)


def case_typed_input(ctx, name, shape, dtype_name):
    """pupil masks and detector frames arrive as boolean / integer arrays: the transform of such an array is the
    transform of the same values in float64 (no buffer may inherit the input's element type)"""
    x = core.typed(symarr("x", shape), dtype_name)
    xf = numpy.array([e for e in x.flat], dtype=object).reshape(shape).view(core.SA)
    pre = []
    for e in x.flat:
        pre.append(z3.Or(z(e.re) == 0, z(e.re) == 1))
    d = var("d")
    pre.append(z(d.re) > 0)
    ctx.encoded("aotools.fouriertransform.%s" % name)
    ctx.bounds.update(shape=list(shape), input="0/1-valued symbolic array of dtype %s" % dtype_name, delta="symbolic > 0")

    def go():
        return numpy.asarray(_call("mod", name, x.copy(), d), dtype=object), numpy.asarray(_call("mod", name, xf.copy(), d), dtype=object)
    paths, ex = core.run_paths(go, pre, max_paths=64)
    ctx.explored(ex, len(paths))
    rp = lambda m: _replay_typed(name, shape, _vals(m, x), dtype_name)
    ctx.fallback = rp
    for pi, pth in enumerate(paths):
        if pth.exc is not None:
            ctx.prove("path%d: %s raises %s for a %s array" % (pi, name, type(pth.exc).__name__, dtype_name), pre + pth.pc, z3.BoolVal(False), replay=rp, axioms=False)
            continue
        a, b = pth.out
        ctx.prove("path%d: %s of a %s array = %s of the same values in float64" % (pi, name, dtype_name, name), pre + pth.pc,
                  all_eq(a, b) if a.shape == b.shape else z3.BoolVal(False), replay=rp, timeout_ms=30000, replay_on_unknown=True)


def _replay_real_input(name, shape, vals):
    x = numpy.asarray(vals, dtype=float).reshape(shape) + numpy.arange(int(numpy.prod(shape))).reshape(shape) * 0.37
    a = numpy.asarray(_real_call("mod", name, x.copy(), 0.5))
    b = numpy.asarray(_real_call("mod", name, x.astype(complex), 0.5))
    bad = a.shape != b.shape or not numpy.allclose(a, b, rtol=1e-9, atol=1e-12)
    return bool(bad), dict(what="%s of a real (float64) array differs from %s of the same values given as complex128" % (name, name), x=x, got=a, want=b)


def case_real_input(ctx, name, shape):
    """phase screens and pupil functions arrive as REAL arrays: the transform of a real array is the transform of the same
    values given as a complex array (code that takes a different route for real input - a half-spectrum transform - must
    land on the same spectrum).  The complex twin carries symbolic imaginary parts constrained to 0."""
    x = symarr("x", shape)
    eps = symarr("e", shape)
    xc = numpy.empty(shape, dtype=object)
    for i in numpy.ndindex(*shape):
        xc[i] = x[i] + Sym(0, 1) * eps[i]
    xc = xc.view(core.SA)
    d = var("d")
    pre = [z(d.re) > 0] + [z(e.re) == 0 for e in eps.flat]
    ctx.encoded("aotools.fouriertransform.%s" % name)
    ctx.bounds.update(shape=list(shape), input="symbolic real array (every element a free real) vs the same values as a complex array", delta="symbolic > 0")

    def go():
        return numpy.asarray(_call("mod", name, x.copy(), d), dtype=object), numpy.asarray(_call("mod", name, xc.copy(), d), dtype=object)
    paths, ex = core.run_paths(go, pre, max_paths=64)
    ctx.explored(ex, len(paths))
    rp = lambda m: _replay_real_input(name, shape, _vals(m, x))
    ctx.fallback = rp
    for pi, pth in enumerate(paths):
        if pth.exc is not None:
            ctx.prove("path%d: %s raises %s for a real array" % (pi, name, type(pth.exc).__name__), pre + pth.pc, z3.BoolVal(False), replay=rp, axioms=False)
            continue
        a, b = pth.out
        ctx.prove("path%d: %s of a real array = %s of the same values as a complex array" % (pi, name, name), pre + pth.pc,
                  all_eq(a, b) if a.shape == b.shape else z3.BoolVal(False), replay=rp, timeout_ms=30000, replay_on_unknown=True)
    ctx.prove("guard: preconditions satisfiable", pre, z3.BoolVal(False), expect="sat", kind="vacuity", axioms=False)


def _vals(m, x):
    try:
        return [float(m(e)) for e in x.flat]
    except Exception:
        return [float(i % 2) for i in range(x.size)]


def build_cases(tier):
    cases = []
    n1 = [1, 2, 3, 4, 5] if tier == "quick" else [1, 2, 3, 4, 5, 6, 7, 8]
    for N in n1:
        cases.append(("mod/ft1d/N=%d" % N, case_1d, dict(where="mod", N=N, batch=())))
    for N in ([2, 3] if tier == "quick" else [2, 3, 4, 5]):
        cases.append(("mod/ft1d/N=%d/batch=2" % N, case_1d, dict(where="mod", N=N, batch=(2,))))
        cases.append(("mod/ft1d/N=%d/batch=3" % N, case_1d, dict(where="mod", N=N, batch=(3,))))
        cases.append(("pkg/ft1d/N=%d" % N, case_1d, dict(where="pkg", N=N, batch=())))
    n2 = [1, 2, 3, 4] if tier == "quick" else [1, 2, 3, 4, 5, 6, 8]
    for N in n2:
        cases.append(("mod/ft2d/N=%d" % N, case_2d, dict(where="mod", N=N, batch=())))
        cases.append(("pkg/ft2d/N=%d" % N, case_2d, dict(where="pkg", N=N, batch=())))
    for N, b in ([(2, (3,)), (3, (2,))] if tier == "quick" else [(2, (3,)), (3, (2,)), (2, (1, 3)), (4, (2,)), (3, (4,))]):
        cases.append(("mod/ft2d/N=%d/batch=%s" % (N, "x".join(map(str, b))), case_2d, dict(where="mod", N=N, batch=b)))
        cases.append(("pkg/ft2d/N=%d/batch=%s" % (N, "x".join(map(str, b))), case_2d, dict(where="pkg", N=N, batch=b)))
    for N in ([2, 3, 4, 5, 6] if tier == "quick" else [1, 2, 3, 4, 5, 6, 7, 8]):
        cases.append(("mod/rft1d/N=%d" % N, case_real_1d, dict(where="mod", N=N, batch=())))
    for N in ([2, 3, 4] if tier == "quick" else [2, 3, 4, 5, 6]):
        cases.append(("mod/rft2d/N=%d" % N, case_real_2d, dict(where="mod", N=N, batch=())))
    cases.append(("mod/rft1d/N=4/batch=2", case_real_1d, dict(where="mod", N=4, batch=(2,))))
    cases.append(("mod/rft1d/N=4/batch=3", case_real_1d, dict(where="mod", N=4, batch=(3,))))
    cases.append(("mod/rft2d/N=2/batch=3", case_real_2d, dict(where="mod", N=2, batch=(3,))))
    for name, shape in [("ft2", (2, 2)), ("ift2", (2, 2)), ("ft", (4,)), ("rft2", (2, 2))] + ([] if tier == "quick" else [("ft2", (4, 4)), ("ft2", (3, 3)), ("rft", (4,)), ("ift", (3,))]):
        for dt in ("bool", "int64"):
            cases.append(("typed-input/%s/%s/%s" % (name, "x".join(map(str, shape)), dt), case_typed_input, dict(name=name, shape=shape, dtype_name=dt)))
    for name, shape in [("ft", (3,)), ("ft", (4,)), ("ift", (3,)), ("ft2", (3, 3)), ("ift2", (3, 3)), ("ft2", (2, 3))] + ([] if tier == "quick" else [("ft2", (4, 4)), ("ift2", (4, 4)), ("ft", (5,)), ("ft2", (5, 5))]):
        cases.append(("real-input/%s/%s" % (name, "x".join(map(str, shape))), case_real_input, dict(name=name, shape=shape)))
    cases.append(("exports", case_exports, {}))
    return cases


if __name__ == "__main__":
    sys.exit(harness.main("C09", build_cases, FILES))
