"""C08  All closed-form turbulence statistics describe one von Karman model (algebraic part).

Real functions executed symbolically (all feasible paths): turb.phase_covariance, slopecovariance.
structure_function_vk / structure_function_kolmogorov, karhunenLoeve.stf_kolmogorov / stf_vonKarman_yao /
stf_vonKarman, and the PSD expressions inside phasescreen.ft_phase_screen / ft_sh_phase_screen.
kv is uninterpreted (keyed by its canonical argument); Gamma constants are named reals within 1e-12 of libm;
rational powers are algebraic.  Decided:
 (a) the slope-covariance and Karhunen-Loeve copies of the von Karman structure function are the same function;
 (b) D(r) = kappa * 2 (B(0) - B(r)) with B the phase covariance, B(0) its small-argument limit value, and the
     constant kappa within 1e-3 of 1 (so both describe one model; the one assumed analytic fact is the limit
     x^nu K_nu(x) -> 2^(nu-1) Gamma(nu), stated as an axiom on the application the code itself evaluates at 1e-40);
 (c) saturation constant 0.17253 (L0/r0)^(5/3) = 2 * 0.0863 (L0/r0)^(5/3) to the stated rounding;
 (d) Kolmogorov copies agree (6.88 vs 6.8839) and the Yao expansion tends to them for r << L;
 (e) every copy scales exactly as r0^(-5/3);
 (f) both screen generators use the same spectrum 0.023 r0^(-5/3) exp(-(f/fm)^2) (f^2+1/L0^2)^(-11/6).
NOT decidable here (stated): monotonicity of D, the Hankel-transform relation, positive semi-definiteness of
covariance matrices for arbitrary point sets - analytic facts about K_{5/6}.
"""
import sys

from .common import *  # noqa: F401,F403
from .common import numpy, z3, core, npx, harness, Sym, St, Fr, z, var, symarr, eqs, conj, all_eq
from .unify import Merger

FILES = ["aotools/turbulence/turb.py", "aotools/turbulence/slopecovariance.py", "aotools/functions/karhunenLoeve.py", "aotools/turbulence/phasescreen.py"]


def _mods():
    import aotools.turbulence.turb as turb
    import aotools.turbulence.slopecovariance as sc
    import aotools.functions.karhunenLoeve as kl
    import aotools.turbulence.phasescreen as ps
    return turb, sc, kl, ps


R, R0, L0 = var("r"), var("r0"), var("L0")
PRE = [z(v.re) > 0 for v in (R, R0, L0)]
NAMES = dict(r=R, r0=R0, L0=L0)


def paths_of(ctx, fn, pre=PRE):
    turb, sc, kl, ps = _mods()

    def go():
        with npx.symbolic(turb, sc, kl):
            return fn(turb, sc, kl)
    paths, ex = core.run_paths(go, pre)
    ctx.explored(ex, len(paths))
    return paths


def mv(m, extra=()):
    out = {}
    for k, s in list(NAMES.items()) + list(extra):
        try:
            out[k] = float(m(s))
        except Exception:
            out[k] = 1.0
    return out


def clampv(v):
    v = dict(v)
    v["r"] = min(max(abs(v["r"]), 1e-3), 1e3)
    v["r0"] = min(max(abs(v["r0"]), 1e-2), 10.0)
    v["L0"] = min(max(abs(v["L0"]), 1e-1), 1e8)
    return v


# ------------------------------------------------------------------ replays
def replay_copies(v):
    turb, sc, kl, ps = _mods()
    bad = False
    last = None
    for vals in (v, dict(v, r0=0.15), dict(v, r0=0.15, L0=max(v["L0"], 2e7)), dict(r=0.7, r0=0.2, L0=25.0)):
        a = float(sc.structure_function_vk(vals["r"], vals["r0"], vals["L0"]))
        b = float(kl.stf_vonKarman(vals["r"] / vals["r0"], vals["L0"] / vals["r0"]))
        e = abs(a - b) / max(abs(b), 1e-300)
        last = dict(what="structure_function_vk(r,r0,L0) != stf_vonKarman(r/r0, L0/r0)", values=vals, slopecov=a, kl=b, rel_err=e)
        if not numpy.isfinite(e) or e > 1e-9:
            return True, last
    return False, last


def replay_cov_vs_sf(v):
    turb, sc, kl, ps = _mods()
    last = None
    for vals in (v, dict(r=0.7, r0=0.2, L0=25.0), dict(r=3.0, r0=0.1, L0=10.0)):
        B0 = float(turb.phase_covariance(0.0, vals["r0"], vals["L0"]))
        Br = float(turb.phase_covariance(vals["r"], vals["r0"], vals["L0"]))
        D = float(sc.structure_function_vk(vals["r"], vals["r0"], vals["L0"]))
        e = abs(2 * (B0 - Br) - D) / max(abs(D), 1e-300)
        last = dict(what="D(r) != 2 (B(0) - B(r)) within 2e-3", values=vals, B0=B0, Br=Br, D=D, rel_err=e)
        if not numpy.isfinite(e) or e > 2e-3:
            return True, last
    return False, last


def replay_scale(fname, v, c):
    turb, sc, kl, ps = _mods()
    c = min(max(abs(c), 0.2), 5.0)
    if abs(c - 1) < 1e-6:
        c = 2.0
    f = dict(phase_covariance=lambda r0: turb.phase_covariance(v["r"], r0, v["L0"]), structure_function_vk=lambda r0: sc.structure_function_vk(v["r"], r0, v["L0"]),
             structure_function_kolmogorov=lambda r0: sc.structure_function_kolmogorov(v["r"], r0))[fname]
    a, b = float(f(v["r0"] * c)), float(f(v["r0"])) * c ** (-5. / 3)
    e = abs(a - b) / max(abs(b), 1e-300)
    return e > 1e-6, dict(what="%s does not scale as r0^(-5/3)" % fname, values=v, c=c, got=a, want=b)


# ------------------------------------------------------------------ cases
def case_copies(ctx):
    turb, sc, kl, ps = _mods()
    ctx.encoded(sc.structure_function_vk, kl.stf_vonKarman, sc.structure_function_kolmogorov, kl.stf_kolmogorov, kl.stf_vonKarman_yao)
    ctx.bounds.update(arguments="r, r0, L0 symbolic > 0 (every path of the functions, e.g. large-L0 branches)")
    paths = paths_of(ctx, lambda turb, sc, kl: (sc.structure_function_vk(R, R0, L0), kl.stf_vonKarman(R / R0, L0 / R0),
                                                 sc.structure_function_kolmogorov(R, R0), kl.stf_kolmogorov(R / R0)))
    for pi, p in enumerate(paths):
        hyp = PRE + p.pc
        rp = lambda m: replay_copies(clampv(mv(m)))
        if p.exc is not None:
            ctx.prove("path%d raises %s" % (pi, type(p.exc).__name__), hyp, z3.BoolVal(False), replay=rp, witness_terms=NAMES, axioms=False)
            continue
        D, Dk, K1, K2 = p.out
        mg = Merger(ctx, hyp, [R, R0, L0])
        a, b = mg.merge([z(Sym.lift(D).re), z(Sym.lift(Dk).re)])
        A_ = z(core.rat_pow(L0 / R0, Fr(5, 3)).re)
        tol = z(Fr(1, 10 ** 9))
        ctx.prove("(a) path%d: structure_function_vk(r,r0,L0) = stf_vonKarman(r/r0, L0/r0) (to 1e-9 of the saturation value)" % pi, hyp + [a >= 0, b >= 0],
                  z3.And(a - b <= tol * A_, b - a <= tol * A_), replay=rp, witness_terms=NAMES, timeout_ms=30000, replay_on_unknown=True)
        k1, k2 = mg.merge([z(Sym.lift(K1).re), z(Sym.lift(K2).re)])
        ctx.prove("(d) path%d: stf_kolmogorov(r/r0) = (6.8839/6.88) structure_function_kolmogorov(r,r0)" % pi, hyp, k2 * z(core.tov(6.88)) == k1 * z(core.tov(6.8839)),
                  replay=lambda m: _replay_kol(clampv(mv(m))), witness_terms=NAMES, timeout_ms=60000)
    ctx.prove("(d) the two Kolmogorov constants agree to 1e-3", [], z3.BoolVal(abs(Fr(68839, 10000) / Fr(688, 100) - 1) < Fr(1, 1000)), axioms=False)
    # Yao expansion tends to Kolmogorov for r << L
    rr, LL = var("rr"), var("LL")
    pre2 = [z(rr.re) > 0, z(LL.re) > 0, z(rr.re) * 10 ** 6 <= z(LL.re)]
    with npx.symbolic(kl):
        y = kl.stf_vonKarman_yao(rr, LL)
        kol = kl.stf_kolmogorov(rr)
    ctx.encoded(kl.stf_vonKarman_yao)
    St.snap_literals = False
    ratio_lo = z(y.re) >= z(kol.re) * z(Fr(97, 100))
    ratio_hi = z(y.re) <= z(kol.re) * z(Fr(101, 100))
    ctx.prove("(d) stf_vonKarman_yao(r, L) within [0.97, 1.01] of stf_kolmogorov(r) for r <= 1e-6 L", pre2, z3.And(ratio_lo, ratio_hi),
              replay=lambda m: _replay_yao(), timeout_ms=60000)
    ctx.prove("guard: preconditions satisfiable", PRE, z3.BoolVal(False), expect="sat", kind="vacuity", axioms=False)


def _replay_kol(v):
    turb, sc, kl, ps = _mods()
    a = float(kl.stf_kolmogorov(v["r"] / v["r0"]))
    b = float(sc.structure_function_kolmogorov(v["r"], v["r0"]))
    e = abs(a / b - 6.8839 / 6.88)
    return e > 1e-9, dict(what="Kolmogorov copies disagree", values=v, kl=a, slopecov=b)


def _replay_yao():
    turb, sc, kl, ps = _mods()
    y = float(kl.stf_vonKarman_yao(1.0, 1e7))
    k = float(kl.stf_kolmogorov(1.0))
    return not (0.97 <= y / k <= 1.01), dict(what="Yao expansion does not tend to Kolmogorov", ratio=y / k)


def formulas():
    """the published formulas, written independently (Assemat & Wilson 2006 eq. 5; von Karman structure function)"""
    A = core.rat_pow(L0 / R0, Fr(5, 3))
    g116, g65, g56 = npx._gamma_const(Fr(11, 6)), npx._gamma_const(Fr(6, 5)), npx._gamma_const(Fr(5, 6))
    pi = Sym(numpy.pi)
    # constants the library pre-computes in double precision are taken at exactly those doubles
    B1 = Sym(2 ** (-5. / 6)) * g116 / Sym(numpy.pi ** (8. / 3))
    B2 = core.rat_pow(Sym(Fr(24, 5)) * g65, Fr(5, 6))
    kv = core.uf("kv_5_6", 1)

    def cov(r):
        x = (pi * 2 * r) / L0
        return A * B1 * B2 * core.rat_pow(x, Fr(5, 6)) * Sym(kv(core.canon(x.re)))

    def sf(r):
        x = (pi * 2 * r) / L0
        return A * Sym(0.17253) * (1 - Sym(2 * numpy.pi ** (5. / 6.)) * core.rat_pow(r / L0, Fr(5, 6)) / g56 * Sym(kv(core.canon(x.re))))
    return dict(A=A, B1=B1, B2=B2, g56=g56, cov=cov, sf=sf, kv=kv, pi=pi)


def case_cov_vs_sf(ctx):
    turb, sc, kl, ps = _mods()
    from .unify import _apps
    ctx.encoded(turb.phase_covariance, sc.structure_function_vk)
    ctx.bounds.update(arguments="r, r0, L0 symbolic > 0; B(0) as the code evaluates it (separation exactly 0)")
    ctx.assume("small-argument limit of the modified Bessel function: x^(5/6) K_{5/6}(x) = 2^(-1/6) Gamma(5/6) (1 +- 1e-9) at the tiny argument "
               "at which the code evaluates the zero-separation covariance (analytic fact, assumed)")
    ctx.assume("structure function is non-negative (0 < g K <= 1), K_{5/6} > 0: analytic facts, assumed in the consistency lemma only")
    ctx.assume("float constants the code pre-computes in double precision (2**(-5./6), numpy.pi**(8./3), numpy.pi**(5./6)) are compared with their algebraic values to 1e-12")
    F = formulas()
    paths = paths_of(ctx, lambda turb, sc, kl: (turb.phase_covariance(0, R0, L0), turb.phase_covariance(R, R0, L0), sc.structure_function_vk(R, R0, L0)))
    rp = lambda m: replay_cov_vs_sf(clampv(mv(m)))
    ctx.fallback = rp
    rel = Fr(1, 10 ** 9)

    def close(a, b, tol=rel):
        return z3.And(a - b <= z(tol) * b, b - a <= z(tol) * b)
    for pi_, p in enumerate(paths):
        hyp = PRE + p.pc
        if p.exc is not None:
            ctx.prove("path%d raises %s" % (pi_, type(p.exc).__name__), hyp, z3.BoolVal(False), replay=rp, witness_terms=NAMES, axioms=False)
            continue
        B0, Br, D = [Sym.lift(x) for x in p.out]
        mg = Merger(ctx, hyp, [R, R0, L0])
        b0, br, d, fcov, fsf = mg.merge([z(B0.re), z(Br.re), z(D.re), z(F["cov"](R).re), z(F["sf"](R).re)])
        kvpos = []
        allapps = {}
        for t in (b0, br, d, fcov, fsf):
            _apps(t, allapps)
        for a in allapps.values():
            if a.decl().name().startswith("kv_"):
                kvpos.append(a > 0)
        ctx.prove("(b) F1 path%d: phase_covariance(r) = A B1 B2 x^(5/6) K(x), x = 2 pi r / L0 (Assemat & Wilson eq. 5), to 1e-9" % pi_, hyp + kvpos, close(br, fcov),
                  replay=rp, witness_terms=NAMES, timeout_ms=120000)
        ctx.prove("(b) F3 path%d: structure_function_vk(r) = 0.17253 A (1 - 2 pi^(5/6) (r/L0)^(5/6) K(x) / Gamma(5/6)), to 1e-9 of the saturation value" % pi_, hyp + kvpos + [fsf >= 0],
                  z3.And(d - fsf <= z(rel) * z((F["A"]).re), fsf - d <= z(rel) * z(F["A"].re)), replay=rp, witness_terms=NAMES, timeout_ms=120000)
        # F2: zero-separation value under the limit axiom instantiated on the application the code evaluates
        lim = core.rat_pow(Sym(2), Fr(-1, 6)) * F["g56"]
        lim_ax = []
        apps0 = {}
        _apps(b0, apps0)
        for a in apps0.values():
            if a.decl().name().startswith("kv_"):
                xp = core.rat_pow(Sym(a.arg(0)), Fr(5, 6))
                prod = z(xp.re) * a
                lim_ax.append(close(prod, z(lim.re)))
        b0t, target = mg.merge([b0, z((F["A"] * F["B1"] * F["B2"] * lim).re)])
        ctx.prove("(b) F2 path%d: phase_covariance(0) = A B1 B2 2^(-1/6) Gamma(5/6) (the zero-separation variance), to 1e-6" % pi_, hyp + lim_ax, close(b0t, target, Fr(1, 10 ** 6)),
                  replay=rp, witness_terms=NAMES, timeout_ms=120000)
        # saturation constant: D with the Bessel term removed
        sat = z3.substitute(d, *[(a, z3.RealVal(0)) for a in allapps.values() if a.decl().name().startswith("kv_")])
        want = z(F["A"].re) * z(Fr(2) * Fr(863, 10000))
        (sat_m, want_m) = mg.merge([sat, want])
        ctx.prove("(c) path%d: saturation value D(r >> L0) = 2 * 0.0863 (L0/r0)^(5/3) to 1e-3" % pi_, hyp, z3.And(sat_m <= want_m * z(Fr(1001, 1000)), sat_m >= want_m * z(Fr(999, 1000))),
                  replay=lambda m: _replay_sat(clampv(mv(m))), witness_terms=NAMES, timeout_ms=60000)
    # consistency of the two published formulas (no code involved): D_formula = 2 (B(0) - B(r)) to 2e-3 of the saturation value
    u = core.rat_pow(F["pi"] * 2, Fr(5, 6))
    pwX = core.rat_pow((F["pi"] * 2 * R) / L0, Fr(5, 6))
    pwR = core.rat_pow(R / L0, Fr(5, 6))
    ctx.prove("(b) L1: (2 pi r/L0)^(5/6) = (2 pi)^(5/6) (r/L0)^(5/6)", PRE, conj(eqs(pwX, u * pwR)), replay=rp, witness_terms=NAMES, timeout_ms=120000)
    lim = core.rat_pow(Sym(2), Fr(-1, 6)) * F["g56"]
    Vp = F["B1"] * F["B2"] * lim * 2
    ctx.prove("(b) L2: 2 B1 B2 2^(-1/6) Gamma(5/6) within 1e-3 of 0.17253", [], z3.And(z(Vp.re) <= z(Fr(0.17253) * Fr(1001, 1000)), z(Vp.re) >= z(Fr(0.17253) * Fr(999, 1000))),
              replay=rp, timeout_ms=120000)
    G1 = Sym(2 * numpy.pi ** (5. / 6.)) / F["g56"]
    G2 = u / lim
    ctx.prove("(b) L3: the two Bessel coefficients agree: 2 pi^(5/6)/Gamma(5/6) = (2 pi)^(5/6) / (2^(-1/6) Gamma(5/6)) to 1e-9", [],
              z3.And(z(G1.re) - z(G2.re) <= z(rel) * z(G2.re), z(G2.re) - z(G1.re) <= z(rel) * z(G2.re)), replay=rp, timeout_ms=120000)
    # L4: with named constants constrained by L2, L3 the claim is linear
    A, s_, vp, g1, g2 = z3.Real("A_"), z3.Real("s_"), z3.Real("Vp_"), z3.Real("G1_"), z3.Real("G2_")
    V = z(Fr(0.17253))
    hyp4 = [A > 0, s_ > 0, g1 > 0, g2 > 0, g1 * s_ <= 1, vp <= V * z(Fr(1001, 1000)), vp >= V * z(Fr(999, 1000)),
            g1 - g2 <= z(rel) * g2, g2 - g1 <= z(rel) * g2]
    Dm = A * V * (1 - g1 * s_)
    Bm = A * vp * (1 - g2 * s_)
    ctx.prove("(b) L4: D = 0.17253 A (1 - G1 s), 2(B(0)-B) = V' A (1 - G2 s) with L2, L3, D >= 0  =>  |D - 2(B(0)-B)| <= 2e-3 * 0.17253 A", hyp4,
              z3.And(Dm - Bm <= z(Fr(2, 1000)) * V * A, Bm - Dm <= z(Fr(2, 1000)) * V * A), replay=rp, timeout_ms=120000, axioms=False)


def _replay_sat(v):
    turb, sc, kl, ps = _mods()
    d = float(sc.structure_function_vk(1e4 * v["L0"], v["r0"], v["L0"]))
    w = 2 * 0.0863 * (v["L0"] / v["r0"]) ** (5. / 3)
    return abs(d / w - 1) > 1e-3, dict(what="saturation value", D=d, want=w)


def case_scaling(ctx):
    turb, sc, kl, ps = _mods()
    c = var("c")
    pre = PRE + [z(c.re) > 0]
    k = core.rat_pow(c, Fr(-5, 3))
    ctx.encoded(turb.phase_covariance, sc.structure_function_vk, sc.structure_function_kolmogorov)
    ctx.bounds.update(arguments="r, r0, L0, c symbolic > 0")
    fns = dict(phase_covariance=lambda turb, sc, kl, r0: turb.phase_covariance(R, r0, L0),
               structure_function_vk=lambda turb, sc, kl, r0: sc.structure_function_vk(R, r0, L0),
               structure_function_kolmogorov=lambda turb, sc, kl, r0: sc.structure_function_kolmogorov(R, r0))
    for name, f in fns.items():
        paths = paths_of(ctx, lambda turb, sc, kl, f=f: (f(turb, sc, kl, R0 * c), f(turb, sc, kl, R0)), pre)
        for pi, p in enumerate(paths):
            hyp = pre + p.pc
            rp = lambda m, name=name: replay_scale(name, clampv(mv(m)), m(c))
            if p.exc is not None:
                ctx.prove("%s path%d raises" % (name, pi), hyp, z3.BoolVal(False), replay=rp, witness_terms=dict(NAMES, c=c), axioms=False)
                continue
            a, b = [Sym.lift(x) for x in p.out]
            mg = Merger(ctx, hyp, [R, R0, L0, c])
            ta, tb = mg.merge([z(a.re), z((b * k).re)])
            ctx.prove("(e) %s(c r0) = c^(-5/3) %s(r0) path%d" % (name, name, pi), hyp, ta == tb, replay=rp, witness_terms=dict(NAMES, c=c), timeout_ms=60000)


def case_psd(ctx):
    """both screen generators take the square root of the same spectrum"""
    turb, sc, kl, ps = _mods()
    from . import C07
    St.pow_uf_for = {Fr(11, 6)}
    ctx.encoded(ps.ft_phase_screen, ps.ft_sh_phase_screen)
    N = 2
    P = C07.P
    pre = C07.PRE
    ctx.bounds.update(N=N, grids="FFT grid and the three 3x3 sub-harmonic grids")

    def oracle(fx, fy):
        f = core.sym_sqrt(fx * fx + fy * fy)
        fm = Sym(5.92) / P["l0"] / (Sym(2) * numpy.pi)
        f0 = 1 / P["L0"]
        return Sym(0.023) * P["r0"] ** Fr(-5, 3) * core.sym_exp(-((f / fm) ** 2)) / ((f ** 2 + f0 ** 2) ** Fr(11, 6))
    before = set(St.sem)
    arrs = [symarr("h%d" % i, (N, N)) for i in range(2)] + [symarr("s%d" % i, (3, 3)) for i in range(6)]
    with npx.symbolic(ps, proxy=npx.NP()):
        ps.ft_sh_phase_screen(P["r0"], N, P["delta"], P["L0"], P["l0"], seed=C07.Gen(arrs))
    ctx.paths += 1
    roots = [nm for nm in St.sem if nm not in before and St.sem[nm][0] == "sqrt"]
    # candidate spectrum values on every grid the code uses
    cands = []
    del_f = 1 / (P["delta"] * N)
    for a in range(N):
        for b in range(N):
            if (a, b) != (N // 2, N // 2):
                cands.append(("fft grid %d,%d" % (a, b), oracle(del_f * (b - N // 2), del_f * (a - N // 2))))
    for p in range(1, 4):
        df = 1 / (P["delta"] * N * 3 ** p)
        for a in (-1, 0, 1):
            for b in (-1, 0, 1):
                if (a, b) != (0, 0):
                    cands.append(("sub-harmonic p=%d %d,%d" % (p, a, b), oracle(df * b, df * a)))
    mg = Merger(ctx, pre, list(P.values()))
    spect = [nm for nm in roots if "r0" in str(St.sem[nm][1]) or "pw!" in str(St.sem[nm][1])]
    ctx.prove("(f) the generators take square roots of spectrum values", [], z3.BoolVal(len(spect) >= 3), axioms=False)
    for nm in spect:
        arg = St.sem[nm][1]
        terms = mg.merge([arg] + [z(c[1].re) for c in cands])
        a0, cs = terms[0], terms[1:]
        goal = z3.Or(*[a0 == c for c in cs])
        ctx.prove("(f) spectral amplitude %s is sqrt of 0.023 r0^(-5/3) exp(-(f/fm)^2)/(f^2+f0^2)^(11/6) at a grid frequency" % nm, pre, goal,
                  replay=lambda m: C07._replay_scale_sh(N, C07.mvals(m), 2.0), timeout_ms=60000)


def case_history(ctx):
    """no state between calls: the same separation evaluated for a second atmosphere with the same L0/r0 ratio
    (concrete parameters, symbolic separation) still agrees with the state-free Karhunen-Loeve copy"""
    turb, sc, kl, ps = _mods()
    ctx.encoded(sc.structure_function_vk, kl.stf_vonKarman, turb.phase_covariance)
    ctx.bounds.update(history="(r0, L0) = (1/4, 25) then (1/2, 50) then (1/4, 25) again; separation symbolic > 0")
    pre = [z(R.re) > 0]
    seqs = [(Fr(1, 4), Fr(25)), (Fr(1, 2), Fr(50)), (Fr(1, 4), Fr(25)), (Fr(1, 2), Fr(25))]

    def go():
        out = []
        with npx.symbolic(turb, sc, kl):
            for (r0v, L0v) in seqs:
                out.append((sc.structure_function_vk(R, Sym(r0v), Sym(L0v)), kl.stf_vonKarman(R / Sym(r0v), Sym(L0v) / Sym(r0v)),
                            turb.phase_covariance(R, Sym(r0v), Sym(L0v))))
        return out
    paths, ex = core.run_paths(go, pre)
    ctx.explored(ex, len(paths))
    for pi, p in enumerate(paths):
        if p.exc is not None:
            ctx.prove("path%d raises %s" % (pi, type(p.exc).__name__), pre + p.pc, z3.BoolVal(False), replay=lambda m: harness.pristine_call(_replay_hist), axioms=False)
            continue
        hyp = pre + p.pc
        first_cov = {}
        for k, ((r0v, L0v), (D, Dk, B)) in enumerate(zip(seqs, p.out)):
            mg = Merger(ctx, hyp, [R])
            a, b = mg.merge([z(Sym.lift(D).re), z(Sym.lift(Dk).re)])
            A_ = z(Fr(float(L0v / r0v) ** (5. / 3)))
            tol = z(Fr(1, 10 ** 9))
            ctx.prove("path%d call %d (r0=%s, L0=%s): slope-covariance copy = Karhunen-Loeve copy" % (pi, k, r0v, L0v), hyp + [a >= 0, b >= 0],
                      z3.And(a - b <= tol * A_, b - a <= tol * A_), replay=lambda m: harness.pristine_call(_replay_hist), timeout_ms=20000, replay_on_unknown=True)
            key = (r0v, L0v)
            if key in first_cov:
                ctx.prove("path%d call %d: phase_covariance repeats its earlier value for the same atmosphere" % (pi, k), hyp,
                          conj(eqs(B, first_cov[key])), replay=lambda m: harness.pristine_call(_replay_hist), timeout_ms=60000)
            else:
                first_cov[key] = B


def _replay_hist():
    turb, sc, kl, ps = _mods()
    r = numpy.array([0.05, 0.7, 3.0, 20.0])
    bad = False
    notes = []
    for (r0v, L0v) in [(0.25, 25.0), (0.5, 50.0), (0.25, 25.0), (0.5, 25.0)]:
        a = sc.structure_function_vk(r, r0v, L0v)
        b = kl.stf_vonKarman(r / r0v, L0v / r0v)
        e = float(numpy.max(numpy.abs(a - b) / numpy.abs(b)))
        if not numpy.isfinite(e) or e > 1e-9:
            bad = True
            notes.append("(r0=%g, L0=%g): slope-covariance copy differs from the KL copy by %.3g" % (r0v, L0v, e))
    return bad, dict(what="; ".join(notes) or "copies agree for every call of the sequence")


def _replay_int_input(name, rvals, r0v, L0v):
    turb, sc, kl, ps = _mods()
    calls = dict(structure_function_vk=lambda r: sc.structure_function_vk(r, r0v, L0v), stf_vonKarman=lambda r: kl.stf_vonKarman(r, L0v),
                 structure_function_kolmogorov=lambda r: sc.structure_function_kolmogorov(r, r0v), stf_kolmogorov=lambda r: kl.stf_kolmogorov(r),
                 phase_covariance=lambda r: turb.phase_covariance(r, r0v, L0v))
    ri = numpy.array([max(1, int(round(abs(float(x))))) for x in rvals], dtype=int)
    bad = []
    for variant in (ri, ri.astype(numpy.int32), [int(x) for x in ri]):
        try:
            a = numpy.asarray(calls[name](variant if not isinstance(variant, list) else numpy.array(variant)), dtype=float)
        except Exception as e:
            bad.append("raises %s for integer separations" % type(e).__name__)
            continue
        b = numpy.asarray(calls[name](ri.astype(float)), dtype=float)
        if a.shape != b.shape or not numpy.allclose(a, b, rtol=1e-6, atol=0):
            bad.append("integer separations %s give %s, the same values as float64 give %s" % (ri.tolist(), a.tolist(), b.tolist()))
    return bool(bad), dict(what="%s: %s" % (name, "; ".join(bad[:2]) or "integer and float separations agree"), r0=r0v, L0=L0v)


def _replay_array_args(name, shape, rvals, r0v, L0v):
    turb, sc, kl, ps = _mods()
    calls = dict(structure_function_vk=lambda r: sc.structure_function_vk(r, r0v, L0v), stf_vonKarman=lambda r: kl.stf_vonKarman(r, L0v),
                 structure_function_kolmogorov=lambda r: sc.structure_function_kolmogorov(r, r0v), stf_kolmogorov=lambda r: kl.stf_kolmogorov(r),
                 phase_covariance=lambda r: turb.phase_covariance(r, r0v, L0v))
    r = numpy.abs(numpy.asarray(rvals, dtype=float)).reshape(shape) + 0.01
    try:
        a = numpy.asarray(calls[name](r.copy()), dtype=float)
    except Exception as e:
        return True, dict(what="%s raises %s for a %s array of separations" % (name, type(e).__name__, shape))
    b = numpy.array([float(calls[name](float(x))) for x in r.flat]).reshape(shape)
    bad = a.shape != b.shape or not numpy.allclose(a, b, rtol=1e-6, atol=0)
    return bool(bad), dict(what="%s on a %s array is not the element-wise scalar result" % (name, shape), r=r, got=a, want=b)


def case_array_args(ctx):
    """the closed forms act ELEMENT-WISE on arrays of separations of any shape (matrices of point-pair distances,
    including ones whose last axis happens to have length 2 or 3)"""
    turb, sc, kl, ps = _mods()
    pre = [z(R0.re) > 0, z(L0.re) > 0]
    fns = [("structure_function_vk", lambda r: sc.structure_function_vk(r, R0, L0)), ("stf_vonKarman", lambda r: kl.stf_vonKarman(r, L0)),
           ("structure_function_kolmogorov", lambda r: sc.structure_function_kolmogorov(r, R0)), ("stf_kolmogorov", lambda r: kl.stf_kolmogorov(r)),
           ("phase_covariance", lambda r: turb.phase_covariance(r, R0, L0))]
    ctx.bounds.update(shapes=[[2, 2], [1, 2], [2, 3], [2, 1, 2]], separations="symbolic > 0")
    for shape in ((2, 2), (1, 2), (2, 3), (2, 1, 2)):
        ra = symarr("ra%s" % "x".join(map(str, shape)), shape)
        prs = pre + [z(e.re) > 0 for e in ra.flat]
        for name, f in fns:
            def go(f=f, ra=ra):
                with npx.symbolic(turb, sc, kl):
                    whole = numpy.asarray(f(ra.copy()), dtype=object)
                    each = numpy.empty(ra.shape, dtype=object)
                    for i in numpy.ndindex(*ra.shape):
                        each[i] = f(ra[i])
                return whole, each
            paths, ex = core.run_paths(go, prs, max_paths=64)
            ctx.explored(ex, len(paths))

            def rp(m, name=name, shape=shape, ra=ra):
                v = clampv(mv(m))
                return _replay_array_args(name, shape, [float(m(e)) for e in ra.flat], v["r0"], v["L0"])
            for pi, pth in enumerate(paths):
                if pth.exc is not None:
                    ctx.prove("%s %s path%d raises %s" % (name, shape, pi, type(pth.exc).__name__), prs + pth.pc, z3.BoolVal(False), replay=rp, axioms=False)
                    continue
                whole, each = pth.out
                ctx.prove("%s on a %s array = the scalar result element by element (path%d)" % (name, "x".join(map(str, shape)), pi), prs + pth.pc,
                          all_eq(whole, each) if whole.shape == each.shape else z3.BoolVal(False), replay=rp, timeout_ms=30000, replay_on_unknown=True)


def case_int_input(ctx):
    """separations handed over as an INTEGER array (pixel counts are): every closed form returns what it returns for the
    same values in float64 - buffers made with *_like of the input must not inherit its integer type"""
    turb, sc, kl, ps = _mods()
    ri = core.typed(symarr("ri", (2,)), int)
    rf = numpy.array([e for e in ri], dtype=object).view(core.SA)          # the same values, untyped (float64)
    pre = [z(R0.re) > 0, z(L0.re) > 0] + core.int_constraints(ri, lo=1)
    ctx.bounds.update(separations="array of 2 symbolic integers >= 1, dtype int (and the same values as float64)", r0="symbolic > 0", L0="symbolic > 0")
    fns = [("structure_function_vk", lambda r: sc.structure_function_vk(r, R0, L0)), ("stf_vonKarman", lambda r: kl.stf_vonKarman(r, L0)),
           ("structure_function_kolmogorov", lambda r: sc.structure_function_kolmogorov(r, R0)), ("stf_kolmogorov", lambda r: kl.stf_kolmogorov(r)),
           ("phase_covariance", lambda r: turb.phase_covariance(r, R0, L0))]
    for name, f in fns:
        ctx.encoded("aotools.%s" % name)

        def go(f=f):
            with npx.symbolic(turb, sc, kl):
                return numpy.asarray(f(ri.copy()), dtype=object), numpy.asarray(f(rf.copy()), dtype=object)
        paths, ex = core.run_paths(go, pre, max_paths=64)
        ctx.explored(ex, len(paths))
        def rp(m, name=name):
            try:
                rv = [float(m(e)) for e in ri]
                v = clampv(mv(m))
                r0v, L0v = v["r0"], v["L0"]
            except Exception:
                rv, r0v, L0v = [1.0, 2.0], 0.2, 25.0         # no model (solver verdict unknown): generic small separations
            return _replay_int_input(name, rv, r0v, L0v)
        for pi, pth in enumerate(paths):
            hyp = pre + pth.pc
            if pth.exc is not None:
                ctx.prove("%s path%d raises %s for integer separations" % (name, pi, type(pth.exc).__name__), hyp, z3.BoolVal(False), replay=rp, axioms=False)
                continue
            a, b = pth.out
            ctx.prove("%s path%d: integer-typed separations give the same result as the same values in float64" % (name, pi), hyp,
                      all_eq(a, b) if a.shape == b.shape else z3.BoolVal(False), replay=rp, timeout_ms=30000, replay_on_unknown=True)
    ctx.prove("guard: preconditions satisfiable", pre, z3.BoolVal(False), expect="sat", kind="vacuity", axioms=False)


def build_cases(tier):
    return [("copies", case_copies, {}), ("integer-separations", case_int_input, {}), ("array-arguments", case_array_args, {}), ("history", case_history, {}), ("covariance-vs-structure-function", case_cov_vs_sf, {}), ("r0-scaling", case_scaling, {}), ("psd", case_psd, {})]


if __name__ == "__main__":
    sys.exit(harness.main("C08", build_cases, FILES))
