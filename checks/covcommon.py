"""Shared machinery for the slope-covariance checks (C01, C02, C03).

The real CovarianceMatrix code is executed on symbolic geometry; `structure_function_vk` is a cut-point:
every application becomes a placeholder real `Dapp!k` with its recorded argument (squared separation, r0,
L0).  Before an obligation is sent to the solver, applications whose arguments are *proved equal* by the
solver (candidates found by exact evaluation at a random rational point) are merged - a harness-level
congruence closure whose every merge is a solver verdict.  The remaining query is linear in the Dapps.
"""
import random

from .common import numpy, z3, core, npx, harness, Sym, St, Fr, z, var, symarr, eqs, conj


class DCut:
    """stands for slopecovariance.structure_function_vk(separation, r0, L0)"""

    def __init__(self):
        self.apps = []       # (q, r0, L0) z3 terms, q = squared separation
        self.calls = 0

    def one(self, e, r0, L0):
        e = Sym.lift(e)
        q = e.sq_of if e.sq_of is not None else (e * e).re
        k = len(self.apps)
        self.apps.append((z(q), z(Sym.lift(r0).re), z(Sym.lift(L0).re)))
        return Sym(z3.Real("Dapp!%d" % k))

    def __call__(self, sep, r0, L0):
        self.calls += 1
        if isinstance(sep, numpy.ndarray):
            out = numpy.empty(sep.shape, dtype=object)
            for i in numpy.ndindex(*sep.shape):
                out[i] = self.one(sep[i], r0, L0)
            return out.view(core.SA)
        return self.one(sep, r0, L0)

    def of_vector(self, v, r0, L0):
        """oracle side: D(|v|) for a 2-vector of Sym"""
        q = v[0] * v[0] + v[1] * v[1]
        e = Sym(0)
        e.sq_of = q.re
        return self.one(e, r0, L0)


class Unifier:
    def __init__(self, ctx, dcut, pre, params, seed=0):
        self.ctx = ctx
        self.d = dcut
        self.pre = list(pre)
        rng = random.Random(seed)
        self.point = [(z(p.re), z3.RealVal("%d/%d" % (rng.randint(5, 60), rng.randint(5, 60)))) for p in params if not p.isconc()]
        self.fp = {}
        self.rep = {}
        self.proved = {}
        self.by_fp = {}
        self.merges = 0

    def _fingerprint(self, k):
        if k not in self.fp:
            vals = []
            for t in self.d.apps[k]:
                v = z3.simplify(z3.substitute(t, *self.point)) if self.point else z3.simplify(t)
                vals.append(v.sexpr())
            self.fp[k] = tuple(vals)
        return self.fp[k]

    def find(self, k):
        while self.rep.get(k, k) != k:
            k = self.rep[k]
        return k

    def unify(self, ks, hyp):
        """merge, among the applications ks, those with solver-proved equal arguments under hyp"""
        ks = sorted(set(ks))
        for k in ks:
            f = self._fingerprint(k)
            bucket = self.by_fp.setdefault(f, [])
            if k in bucket:
                continue
            merged = False
            for r in bucket:
                key = (r, k)
                if key not in self.proved:
                    a, b = self.d.apps[r], self.d.apps[k]
                    goal = z3.And(a[0] == b[0], a[1] == b[1], a[2] == b[2])
                    self.proved[key] = self.ctx.lemma(hyp, goal, timeout_ms=5000)
                if self.proved[key]:
                    self.rep[k] = self.find(r)
                    self.merges += 1
                    merged = True
                    break
            bucket.append(k)
        return [(z3.Real("Dapp!%d" % k), z3.Real("Dapp!%d" % self.find(k))) for k in ks if self.find(k) != k]


def apps_in(t):
    out = set()
    names = set()
    core._consts(t, names)
    for n in names:
        if n.startswith("Dapp!"):
            out.add(int(n[5:]))
    return out


def resolve_bitor(ctx, hyp, e):
    """bit-OR mirror: idempotent on solver-equal operands (otherwise stays opaque)"""
    if z3.is_app(e) and e.decl().name() == "bitor32":
        a, b = resolve_bitor(ctx, hyp, e.arg(0)), resolve_bitor(ctx, hyp, e.arg(1))
        if a.eq(b) or ctx.lemma(hyp, a == b, timeout_ms=5000):
            return a
        return e.decl()(a, b)
    if z3.is_app(e) and e.num_args() > 0 and _has_bitor(e):
        return e.decl()(*[resolve_bitor(ctx, hyp, c) for c in e.children()])
    return e


def _has_bitor(e):
    seen = set()
    stack = [e]
    while stack:
        x = stack.pop()
        if x.get_id() in seen:
            continue
        seen.add(x.get_id())
        if z3.is_app(x) and x.decl().name() == "bitor32":
            return True
        stack.extend(x.children())
    return False


class Geometry:
    """symbolic description of a WFS system + atmosphere, and the independent oracle"""

    def __init__(self, masks, n_layers, tag="", shared_d=False, shared_alt=False, shared_gs=False, ngs=None):
        self.masks = [numpy.asarray(m) for m in masks]
        n = len(masks)
        self.n = n
        self.D = var("Dtel" + tag)
        self.d = [var("d%d%s" % (0 if shared_d else i, tag)) for i in range(n)]
        self.gs = [[var("gx%d%s" % (0 if shared_gs else i, tag)), var("gy%d%s" % (0 if shared_gs else i, tag))] for i in range(n)]
        self.alt = [var("H%d%s" % (0 if shared_alt else i, tag)) for i in range(n)]
        if ngs is not None:
            for i in ngs:
                self.alt[i] = 0
        self.wv = [var("lam%d%s" % (i, tag)) for i in range(n)]
        self.h = [var("h%d%s" % (l, tag)) for l in range(n_layers)]
        self.r0 = [var("r0_%d%s" % (l, tag)) for l in range(n_layers)]
        self.L0 = [var("L0_%d%s" % (l, tag)) for l in range(n_layers)]
        self.n_layers = n_layers

    def params(self):
        out = [self.D] + self.d + [g for p in self.gs for g in p] + [a for a in self.alt if isinstance(a, Sym)] + self.wv + self.h + self.r0 + self.L0
        seen, res = set(), []
        for p in out:
            k = str(p.re)
            if k not in seen:
                seen.add(k)
                res.append(p)
        return res

    def pre(self):
        pos = [self.D] + self.d + self.wv + self.r0 + self.L0
        c = [z(p.re) > 0 for p in pos] + [z(h.re) >= 0 for h in self.h]
        for a in self.alt:
            if isinstance(a, Sym):
                # NGS (altitude 0) or LGS above every layer
                c.append(z3.Or(z(a.re) == 0, z3.And(*[z(a.re) > z(h.re) for h in self.h])))
        return c

    def args(self, threads=1, layers=None):
        ls = list(range(self.n_layers)) if layers is None else layers
        return (self.n, [m.copy() for m in self.masks], self.D, list(self.d), list(self.alt), [list(p) for p in self.gs], list(self.wv),
                len(ls), [self.h[l] for l in ls], [self.r0[l] for l in ls], [self.L0[l] for l in ls], threads)

    def slopes(self):
        """ordered list (wfs, axis, (i0, i1)) : per sensor all x-slopes then all y-slopes, sub-apertures row-major"""
        out = []
        for w in range(self.n):
            idx = numpy.array(numpy.where(self.masks[w] == 1)).T
            for ax in (0, 1):
                for (i0, i1) in idx:
                    out.append((w, ax, (int(i0), int(i1))))
        return out

    def oracle_entry(self, dcut, a, b, layers, lgs):
        """true covariance of slopes a and b (entries of slopes()), summed over the given layers.
        lgs[w] tells whether sensor w is a laser guide star (finite altitude) on this path."""
        wa, axa, ia = a
        wb, axb, ib = b
        tot = Sym(0)
        rad = Sym(numpy.pi) / 180 / 3600
        for l in layers:
            h = self.h[l]

            def proj(w, idx):
                sf = (1 - h / self.alt[w]) if lgs[w] else Sym(1)
                p = []
                for c in (0, 1):
                    centre = self.d[w] * Fr(2 * idx[c] + 1, 2) - self.D / 2
                    p.append(centre * sf + self.gs[w][c] * rad * h)
                return p, self.d[w] * sf
            pa, da = proj(wa, ia)
            pb, db = proj(wb, ib)
            ea = [Sym(1) if axa == 0 else Sym(0), Sym(1) if axa == 1 else Sym(0)]
            eb = [Sym(1) if axb == 0 else Sym(0), Sym(1) if axb == 1 else Sym(0)]
            A = [pa[k] + da / 2 * ea[k] for k in (0, 1)]
            B = [pa[k] - da / 2 * ea[k] for k in (0, 1)]
            Cc = [pb[k] + db / 2 * eb[k] for k in (0, 1)]
            Dd = [pb[k] - db / 2 * eb[k] for k in (0, 1)]
            sub = lambda u, v: [u[0] - v[0], u[1] - v[1]]
            Dv = lambda v: dcut.of_vector(v, self.r0[l], self.L0[l])
            cov = (Dv(sub(A, Dd)) + Dv(sub(B, Cc)) - Dv(sub(A, Cc)) - Dv(sub(B, Dd))) * Fr(1, 2)
            tot = tot + cov * self.wv[wa] * self.wv[wb] / (da * db * 4 * numpy.pi ** 2)
        return tot


def lgs_flags(geo, path_pc, pre):
    """which sensors are LGS on this path (altitude != 0 implied by the path condition)"""
    flags = []
    for a in geo.alt:
        if not isinstance(a, Sym):
            flags.append(a != 0)
            continue
        s = z3.Solver()
        s.add(pre)
        s.add(path_pc)
        s.add(z(a.re) == 0)
        flags.append(s.check() == z3.unsat)
    return flags


# ------------------------------------------------------------------ concrete oracle for replays (float64, real structure function)
def concrete_matrix(vals, masks, layers=None, threads=1):
    import aotools.turbulence.slopecovariance as sc
    n = len(masks)
    ls = list(range(len(vals["h"]))) if layers is None else layers
    cm = sc.CovarianceMatrix(n, [numpy.asarray(m, dtype=float) for m in masks], vals["D"], list(vals["d"]), list(vals["alt"]),
                             [list(p) for p in vals["gs"]], list(vals["wv"]), len(ls), [vals["h"][l] for l in ls],
                             [vals["r0"][l] for l in ls], [vals["L0"][l] for l in ls], threads)
    return numpy.array(cm.make_covariance_matrix(), dtype=float), cm


def concrete_oracle(vals, masks, layers=None):
    import aotools.turbulence.slopecovariance as sc
    n = len(masks)
    ls = list(range(len(vals["h"]))) if layers is None else layers
    sl = []
    for w in range(n):
        idx = numpy.array(numpy.where(numpy.asarray(masks[w]) == 1)).T
        for ax in (0, 1):
            for (i0, i1) in idx:
                sl.append((w, ax, (int(i0), int(i1))))
    N = len(sl)
    M = numpy.zeros((N, N))
    rad = numpy.pi / 180 / 3600
    for l in ls:
        h, r0, L0 = vals["h"][l], vals["r0"][l], vals["L0"][l]

        def proj(w, idx):
            sf = (1 - h / vals["alt"][w]) if vals["alt"][w] != 0 else 1.0
            p = numpy.array([((idx[c] + 0.5) * vals["d"][w] - vals["D"] / 2) * sf + vals["gs"][w][c] * rad * h for c in (0, 1)])
            return p, vals["d"][w] * sf

        def Dfun(v):
            r = float(numpy.hypot(v[0], v[1]))
            if r < 1e-12:
                return 0.0
            return float(sc.structure_function_vk(r, r0, L0))
        for a in range(N):
            wa, axa, ia = sl[a]
            pa, da = proj(wa, ia)
            ea = numpy.array([1.0 if axa == 0 else 0.0, 1.0 if axa == 1 else 0.0])
            for b in range(N):
                wb, axb, ib = sl[b]
                pb, db = proj(wb, ib)
                eb = numpy.array([1.0 if axb == 0 else 0.0, 1.0 if axb == 1 else 0.0])
                A, B = pa + da / 2 * ea, pa - da / 2 * ea
                Cc, Dd = pb + db / 2 * eb, pb - db / 2 * eb
                cov = 0.5 * (Dfun(A - Dd) + Dfun(B - Cc) - Dfun(A - Cc) - Dfun(B - Dd))
                M[a, b] += cov * vals["wv"][wa] * vals["wv"][wb] / (4 * numpy.pi ** 2 * da * db)
    return M


def model_vals(m, geo):
    def f(x):
        return float(m.frac(x)) if isinstance(x, Sym) else float(x)
    return dict(D=f(geo.D), d=[f(x) for x in geo.d], gs=[[f(p[0]), f(p[1])] for p in geo.gs], alt=[f(a) for a in geo.alt],
                wv=[f(x) for x in geo.wv], h=[f(x) for x in geo.h], r0=[f(x) for x in geo.r0], L0=[f(x) for x in geo.L0])


def generic_vals(geo, seed):
    """a generic concrete configuration (used when the solver's witness is degenerate because D is uninterpreted)"""
    rng = random.Random(seed)
    n = geo.n
    d0 = 0.5 + 0.25 * rng.randint(0, 2)

    def shared(lst, gen):
        cache = {}
        out = []
        for x in lst:
            k = str(x.re) if isinstance(x, Sym) else repr(x)
            if not isinstance(x, Sym):
                out.append(float(x))
                continue
            if k not in cache:
                cache[k] = gen(len(cache))
            out.append(cache[k])
        return out
    d = shared(geo.d, lambda i: d0 * (1 + 0.5 * i))
    alt = shared(geo.alt, lambda i: 90000.0 + 20000.0 * i)
    gx = shared([p[0] for p in geo.gs], lambda i: 10.0 * (i + 1) + rng.randint(0, 5))
    gy = shared([p[1] for p in geo.gs], lambda i: -7.0 * (i + 1) + rng.randint(0, 5))
    return dict(D=d0 * 2, d=d, gs=[[gx[i], gy[i]] for i in range(n)], alt=alt, wv=[500e-9 * (1 + 0.3 * i) for i in range(n)],
                h=[0.0 + 4000.0 * (l + 1) for l in range(geo.n_layers)], r0=[0.15 + 0.05 * l for l in range(geo.n_layers)],
                L0=[25.0 + 5 * l for l in range(geo.n_layers)])
