"""C05  Infinite screen evolves by exactly one row per step, for any history.

One inductive step from an ARBITRARY screen state (symbolic contents), repeated k times: after add_row() the
exposed screen has the requested N x N shape (also when the internal Fried size is larger), equals the previous
exposed screen shifted down one row with the new row (= A Z + B b) first, and nothing else changes; reading
.scrn and repr() change neither the stored screen nor the random stream; find_allowed_size returns the least
2^n+1 >= nx for a symbolic integer nx (own explorer, cross-checked with CrossHair).  The theoretical covariance
is a fixed point of the row recursion (C04's identities on a small von Karman screen).
NOT decidable here (stated, not claimed): "only finite values", stability of the recursion and uniqueness of its
stationary covariance (spectral radius of a matrix of Bessel-function values).
"""
import os
import subprocess
import sys

from .common import *  # noqa: F401,F403
from .common import numpy, z3, core, npx, harness, Sym, St, Fr, z, var, symarr, eqs, conj, all_eq, same_terms
from .screencommon import _ips, TurbCut, ScreenStub, make_screen, with_screen_env

FILES = ["aotools/turbulence/infinitephasescreen.py"]


# ------------------------------------------------------------------ replay on the real code
def replay_steps(kind, nx, param, k):
    import copy
    ips = _ips()
    cls = ips.PhaseScreenVonKarman if kind == "vk" else ips.PhaseScreenKolmogorov
    kw = dict(n_columns=param) if kind == "vk" else dict(stencil_length_factor=param)
    scr = cls(nx, 0.1, 0.16, 20.0, random_seed=5, **kw)
    notes = []
    bad = False
    if numpy.shape(scr.scrn) != (nx, nx):
        bad = True
        notes.append("initial exposed shape %s (internal size %d)" % (numpy.shape(scr.scrn), scr.nx_size))
    for step in range(k):
        before = numpy.array(scr.scrn, dtype=float)
        full_before = numpy.array(scr._scrn, dtype=float)
        state = copy.deepcopy(scr._R.bit_generator.state)
        s1 = numpy.array(scr.scrn)
        rep = repr(scr)
        if not numpy.array_equal(numpy.array(scr._scrn, dtype=float), full_before) or scr._R.bit_generator.state != state:
            bad = True
            notes.append("reading .scrn / repr() changed the screen or the random stream")
        expect_row = None
        try:
            # the row the recursion must produce from THIS state: A (Z - ref) + B b + ref with b the next nx_size draws
            g = numpy.random.Generator(type(scr._R.bit_generator)())
            g.bit_generator.state = copy.deepcopy(state)
            b = g.normal(0, 1, size=scr.nx_size)
            Z = full_before[(scr.stencil_coords[:, 0], scr.stencil_coords[:, 1])]
            ref = float(full_before[scr.reference_coord]) if kind != "vk" else 0.0
            expect_row = numpy.asarray(scr.A_mat, dtype=float).dot(Z - ref) + numpy.asarray(scr.B_mat, dtype=float).dot(b) + ref
        except Exception:
            expect_row = None          # other attribute layout: the value comparison is skipped (shape/shift still checked)
        out = scr.add_row()
        after = numpy.array(scr.scrn, dtype=float)
        if expect_row is not None and after.shape == (nx, nx):
            tol = 1e-9 * max(1.0, float(numpy.max(numpy.abs(expect_row))))
            if numpy.max(numpy.abs(after[0] - expect_row[:nx])) > tol:
                bad = True
                notes.append("step %d: row 0 is not A (Z - ref) + B b + ref for the current screen (max diff %.3g)" % (step, float(numpy.max(numpy.abs(after[0] - expect_row[:nx])))))
        if after.shape != (nx, nx):
            bad = True
            notes.append("step %d: exposed shape %s" % (step, after.shape))
            continue
        if not numpy.array_equal(after[1:], before[:-1]):
            bad = True
            notes.append("step %d: old rows are not the previous screen shifted by one" % step)
        if not numpy.array_equal(numpy.asarray(out, dtype=float), after):
            bad = True
            notes.append("step %d: add_row() does not return the exposed screen" % step)
    return bad, dict(what="; ".join(notes) or "ok", kind=kind, nx=nx, param=param, steps=k)


def replay_allowed(nx):
    ips = _ips()
    r = ips.find_allowed_size(nx)
    ok = r >= nx and (r - 1) >= 1 and ((r - 1) & (r - 2)) == 0 and (r == 2 or (r - 1) // 2 + 1 < nx)
    return (not ok), dict(what="find_allowed_size(%d) = %d is not the least 2^n+1 >= nx" % (nx, r))


# ------------------------------------------------------------------ cases
def case_steps(ctx, kind, nx, param, k):
    ips = _ips()
    ps, r0, L0 = var("ps"), var("r0"), var("L0")
    pre = [z(ps.re) > 0, z(r0.re) > 0, z(L0.re) > 0]
    ctx.encoded(ips.PhaseScreen.add_row, ips.PhaseScreen.get_new_row, type(None).__name__ and ips.PhaseScreen.make_initial_screen,
                ips.PhaseScreenKolmogorov.get_new_row, ips.PhaseScreenKolmogorov.__repr__, ips.find_allowed_size)
    ctx.bounds.update(variant=kind, requested_nx=nx, param=param, steps=k, screen="arbitrary symbolic contents (inductive step)")
    npx.LAZY_INV[0] = True
    stream = npx.Stream(z3.Real("stream!injected"))
    scr, turb, stub = make_screen(kind, nx, param, ps, r0, L0, seed=stream)
    ctx.paths += 1
    rp = lambda m: harness.pristine_call(replay_steps, kind, nx, param, k)
    ctx.fallback = rp
    N = nx
    nxs = int(scr.nx_size)
    ctx.bounds["internal_nx"] = nxs
    init = numpy.asarray(scr.scrn, dtype=object)
    ctx.prove("initial exposed screen is N x N", [], z3.BoolVal(init.shape == (N, N)), replay=rp, axioms=False)
    if len(stub.calls) == 1:
        c = stub.calls[0]
        okargs = (c["seed"] is stream) and c["N"] == int(scr.stencil_length)
        ctx.prove("initial screen drawn from the instance's own generator, stencil_length pixels wide", [], z3.BoolVal(bool(okargs)), replay=rp, axioms=False)
    sten = [tuple(int(v) for v in cc) for cc in numpy.asarray(scr.stencil_coords)]
    A, B = numpy.asarray(scr.A_mat, dtype=object), numpy.asarray(scr.B_mat, dtype=object)
    for step in range(k):
        attrs_before = {kk: id(v) for kk, v in vars(scr).items()}
        full_before = numpy.asarray(scr._scrn, dtype=object).copy()
        elems_before = [e for e in numpy.asarray(scr._scrn, dtype=object).flat]
        idx_before = stream.index
        with with_screen_env(turb, stub):
            exposed_before = numpy.asarray(scr.scrn, dtype=object).copy()
            if kind != "vk":
                rep = repr(scr)
            again = numpy.asarray(scr.scrn, dtype=object)
        same = all(a is b for a, b in zip(elems_before, numpy.asarray(scr._scrn, dtype=object).flat)) and stream.index == idx_before \
            and attrs_before == {kk: id(v) for kk, v in vars(scr).items()}
        ctx.prove("step %d: reading .scrn%s changes neither the stored screen, any attribute nor the random stream" % (step, "" if kind == "vk" else " and repr()"),
                  [], z3.BoolVal(bool(same)), replay=rp, axioms=False)
        with with_screen_env(turb, stub):
            out = scr.add_row()
        after = numpy.asarray(scr.scrn, dtype=object)
        full_after = numpy.asarray(scr._scrn, dtype=object)
        if after.shape != (N, N):
            ctx.prove("step %d: exposed screen keeps the requested N x N shape (got %s)" % (step, after.shape), [], z3.BoolVal(False), replay=rp, axioms=False)
            continue
        ctx.prove("step %d: exposed screen keeps the requested N x N shape" % step, [], z3.BoolVal(True), replay=rp, axioms=False)
        ctx.prove("step %d: rows 1.. are the previous exposed screen shifted down by exactly one row" % step, pre, all_eq(after[1:], exposed_before[:-1]), replay=rp)
        ctx.prove("step %d: internal screen keeps its shape and shifts by one row" % step, pre,
                  z3.And(z3.BoolVal(full_after.shape == full_before.shape), all_eq(full_after[1:], full_before[:-1]) if full_after.shape == full_before.shape else z3.BoolVal(False)), replay=rp)
        b = numpy.array([Sym(npx._DRAW(stream.ident, idx_before + j)) for j in range(nxs)], dtype=object)
        Z = numpy.array([full_before[p] for p in sten], dtype=object)
        if kind == "vk":
            want = A.dot(Z) + B.dot(b)
        else:
            ref = full_before[1, 1]
            want = A.dot(Z - ref) + B.dot(b) + ref
        ctx.prove("step %d: row 0 is the newly generated row (first N entries of A Z + B b)" % step, pre, all_eq(after[0], want[:N]), replay=rp)
        ctx.prove("step %d: add_row() returns the exposed screen" % step, pre, all_eq(numpy.asarray(out, dtype=object), after), replay=rp)
        ctx.prove("step %d: exactly nx draws consumed" % step, [], z3.BoolVal(stream.index == idx_before + nxs), replay=rp, axioms=False)


def case_allowed(ctx, hi):
    ips = _ips()
    nxv = var("nx")
    pre = [z(nxv.re) >= 1, z(nxv.re) <= hi, z(nxv.re) == z3.ToReal(z3.ToInt(z(nxv.re)))]
    ctx.encoded(ips.find_allowed_size)
    ctx.bounds.update(nx="symbolic integer in [1, %d]" % hi)

    def go():
        with npx.symbolic(ips):
            return ips.find_allowed_size(nxv)
    paths, ex = core.run_paths(go, pre)
    ctx.explored(ex, len(paths))
    for pi, p in enumerate(paths):
        hyp = pre + p.pc
        rp = lambda m: replay_allowed(int(round(m(nxv))))
        if p.exc is not None:
            ctx.prove("path%d raises %s" % (pi, type(p.exc).__name__), hyp, z3.BoolVal(False), replay=rp, witness_terms=dict(nx=nxv), axioms=False)
            continue
        r = Sym.lift(p.out)
        if not r.isconc():
            ctx.prove("path%d returns a concrete size" % pi, hyp, z3.BoolVal(False), replay=rp, witness_terms=dict(nx=nxv), axioms=False)
            continue
        rv = int(r.re)
        pw = rv - 1
        is_pow = pw >= 1 and (pw & (pw - 1)) == 0
        prev = (pw // 2 + 1) if pw >= 2 else None
        goal = z3.And(z3.BoolVal(is_pow), z(nxv.re) <= rv, (z(nxv.re) > prev) if prev is not None else z3.BoolVal(True))
        ctx.prove("path%d: returns %d = least 2^n+1 >= nx on this path" % (pi, rv), hyp, goal, replay=rp, witness_terms=dict(nx=nxv))
    ctx.prove("guard: preconditions satisfiable", pre, z3.BoolVal(False), expect="sat", kind="vacuity", axioms=False)
    ctx.prove("every nx in range is covered by some path", pre, z3.Or(*[z3.And(*p.pc) if p.pc else z3.BoolVal(True) for p in paths]),
              replay=lambda m: (True, dict(what="a size in range reaches no explored path")), witness_terms=dict(nx=nxv))


CH_SRC = '''
import sys
sys.path.insert(0, %r)
from aotools.turbulence.infinitephasescreen import find_allowed_size


def allowed_size_contract(nx: int) -> int:
    """
    pre: 1 <= nx <= %d
    post: __return__ >= nx
    post: __return__ >= 2 and ((__return__ - 1) & (__return__ - 2)) == 0
    post: __return__ == 2 or (__return__ - 1) // 2 + 1 < nx
    """
    return find_allowed_size(nx)
'''


def case_crosshair(ctx, hi):
    """the same contract decided by CrossHair 0.0.110 (pure-int code), per-condition timeout 60 s"""
    ips = _ips()
    ctx.encoded(ips.find_allowed_size)
    ctx.bounds.update(nx="[1, %d]" % hi, engine="crosshair check --report_all --per_condition_timeout 60")
    import tempfile
    d = tempfile.mkdtemp(prefix="c05ch", dir="/var/tmp")
    path = os.path.join(d, "ch_c05.py")
    open(path, "w").write(CH_SRC % (harness.REPO, hi))
    exe = os.path.join(harness.VERIF, ".venv", "bin", "crosshair")
    ctx.paths += 1
    try:
        r = subprocess.run([exe, "check", "--report_all", "--per_condition_timeout", "60", path], capture_output=True, text=True, timeout=300,
                           env=dict(os.environ, PYTHONPATH=harness.REPO, MPLBACKEND="Agg"))
        out = r.stdout + r.stderr
    except Exception as e:
        out = "crosshair could not be run: %s" % e
    finally:
        import shutil
        shutil.rmtree(d, ignore_errors=True)
    confirmed = "Confirmed over all paths" in out
    refuted = "error:" in out and ("false when calling" in out or "Exception" in out)
    ctx.samples.append(dict(obligation="crosshair/find_allowed_size", output=out[-800:]))
    if refuted:
        # a CrossHair counterexample: replay the concrete value through the real function
        import re
        m = re.search(r"allowed_size_contract\((?:nx\s*=\s*)?(-?\d+)\)", out)
        val = int(m.group(1)) if m else 6
        ctx.prove("crosshair: contract of find_allowed_size", [], z3.BoolVal(False), replay=lambda mm: replay_allowed(val), axioms=False)
    elif confirmed:
        ctx.prove("crosshair: contract of find_allowed_size confirmed over all paths", [], z3.BoolVal(True), axioms=False)
    else:
        ctx.inconclusive.append("crosshair/find_allowed_size: not confirmed (%s)" % out.strip()[-200:].replace("\n", " "))


def case_fixed_point(ctx, history=False):
    """theoretical covariance is a fixed point of the von Karman row recursion: C04's identities
    (also for an instance created after another one with a different r0)"""
    from . import C04
    C04.case_screen(ctx, "vk", 2, 2, history)


def case_own_generator(ctx):
    from . import C04
    C04.case_own_generator(ctx, "vk")


def build_cases(tier):
    cases = []
    k = 2 if tier == "quick" else 3
    L = [("vk", 2, 1), ("vk", 3, 2), ("vk", 4, 2), ("fried", 2, 1), ("fried", 3, 1), ("fried", 4, 1), ("fried", 6, 1), ("fried", 3, 2)]
    if tier == "thorough":
        L += [("fried", 7, 2), ("fried", 10, 1), ("vk", 6, 3), ("fried", 5, 4)]
    for kind, nx, param in L:
        cases.append(("steps/%s/nx=%d/param=%d" % (kind, nx, param), case_steps, dict(kind=kind, nx=nx, param=param, k=k)))
    # histories longer than the internal working length (a recycled buffer must not show)
    for kind, nx, param, kk in ([("vk", 2, 1, 5), ("fried", 2, 1, 6)] if tier == "quick" else [("vk", 2, 1, 6), ("fried", 2, 1, 8), ("vk", 3, 2, 7), ("fried", 3, 1, 9)]):
        cases.append(("steps-long/%s/nx=%d/param=%d/k=%d" % (kind, nx, param, kk), case_steps, dict(kind=kind, nx=nx, param=param, k=kk)))
    hi = 300 if tier == "quick" else 4096
    cases.append(("allowed-size/symbolic-nx<=%d" % hi, case_allowed, dict(hi=hi)))
    cases.append(("allowed-size/crosshair<=%d" % (70 if tier == "quick" else 1030), case_crosshair, dict(hi=70 if tier == "quick" else 1030)))
    cases.append(("fixed-point/vk/nx=2/cols=2", case_fixed_point, {}))
    cases.append(("fixed-point/vk/nx=2/cols=2/after-another-r0", case_fixed_point, dict(history="r0")))
    cases.append(("own-generator/vk", case_own_generator, {}))
    return cases


if __name__ == "__main__":
    sys.exit(harness.main("C05", build_cases, FILES))
