"""Solver-proved merging of defined variables (sqrt / rational powers) and uninterpreted applications whose
arguments are provably equal under the preconditions.  Candidates are found by exact evaluation at a random
rational point; every merge is a solver verdict (`unsat` of the disequality)."""
import random

from .common import z3, core, St, Fr, z


def _apps(t, acc):
    seen = set()
    stack = [t]
    while stack:
        e = stack.pop()
        if e.get_id() in seen:
            continue
        seen.add(e.get_id())
        if z3.is_app(e) and e.num_args() > 0 and e.decl().kind() == z3.Z3_OP_UNINTERPRETED:
            acc[e.get_id()] = e
        stack.extend(e.children())


class Merger:
    def __init__(self, ctx, pre, params, seed=1):
        self.ctx = ctx
        self.pre = list(pre)
        rng = random.Random(seed)
        self.point = [(z(p.re), z3.RealVal("%d/%d" % (rng.randint(7, 90), rng.randint(7, 90)))) for p in params]
        self.subs = []
        self.merges = 0
        self.proved = {}

    def _fp(self, t):
        t = self.apply(t)
        v = z3.simplify(z3.substitute(t, *self.point))
        return v.sexpr() if z3.is_rational_value(v) else None

    def _equal(self, a, b):
        if a.eq(b):
            return True
        key = (a.get_id(), b.get_id())
        if key not in self.proved:
            self.proved[key] = self.ctx.lemma(self.pre, a == b, timeout_ms=5000)
        return self.proved[key]

    def apply(self, t):
        if not self.subs:
            return t
        for _ in range(4):
            t2 = z3.substitute(t, *self.subs)
            if t2.eq(t):
                break
            t = t2
        return t

    def merge(self, terms, rounds=3):
        """returns the terms with provably equal defined variables / applications merged"""
        terms = list(terms)
        for _ in range(rounds):
            changed = False
            cur = [self.apply(t) for t in terms]
            # defined variables (sqrt, powers)
            names = set()
            for t in cur:
                core._consts(t, names)
            groups = {}
            for nm in names:
                sem = St.sem.get(nm)
                if sem and sem[0] in ("sqrt", "pow"):
                    groups.setdefault((sem[0],) + tuple(sem[2:]), []).append(nm)
            for key, nms in groups.items():
                nms = sorted(nms)
                reps = []
                for nm in nms:
                    arg = self.apply(St.sem[nm][1])
                    f = self._fp(arg)
                    for (rn, rarg, rf) in reps:
                        if f is not None and f == rf and self._equal(arg, rarg):
                            self.subs.append((z3.Real(nm), z3.Real(rn)))
                            self.merges += 1
                            changed = True
                            break
                    else:
                        reps.append((nm, arg, f))
            # uninterpreted applications
            cur = [self.apply(t) for t in terms]
            apps = {}
            for t in cur:
                _apps(t, apps)
            byd = {}
            for a in apps.values():
                byd.setdefault(a.decl().name(), []).append(a)
            for dn, lst in byd.items():
                reps = []
                for a in sorted(lst, key=lambda e: e.sexpr()):
                    fps = tuple(self._fp(c) for c in a.children())
                    for (ra, rf) in reps:
                        if None not in fps and fps == rf and all(self._equal(x, y) for x, y in zip(a.children(), ra.children())):
                            if not a.eq(ra):
                                self.subs.append((a, ra))
                                self.merges += 1
                                changed = True
                            break
                    else:
                        reps.append((a, fps))
            if not changed:
                break
        return [self.apply(t) for t in terms]
