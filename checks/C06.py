"""C06  Seeded screens are reproducible and instances are isolated.

The real ft_phase_screen, ft_sh_phase_screen, PhaseScreenVonKarman / PhaseScreenKolmogorov (constructor and
add_row) run symbolically with a symbolic seed and symbolic parameters.  numpy.random follows the documented
seeding semantics as a stream model (draw(stream_id, index) uninterpreted; default_rng(int) -> new stream with
that id, default_rng(Generator) -> the same object, default_rng(None) -> fresh id; the global state is one more
stream).  Results are compared as TERMS: two results that are the same term are bit-identical whatever the
floating-point operations do.  Every case is one history (program of interleaved operations, run in its own
process): the seeded target is computed (1) in a pristine process with no history, (2) after the history, (3)
again after more interleaving; (1)=(2)=(3) is decided (identical serialisation or a solver query on the parsed
terms).  Different seeds / unseeded calls are checked to be NOT forced equal (sat).
"""
import hashlib
import sys

from .common import *  # noqa: F401,F403
from .common import numpy, z3, core, npx, harness, Sym, St, Fr, z, var, symarr, eqs, conj, all_eq

FILES = ["aotools/turbulence/phasescreen.py", "aotools/turbulence/infinitephasescreen.py"]


def _mods():
    import aotools.turbulence.phasescreen as ps
    import aotools.turbulence.infinitephasescreen as ips
    return ps, ips


# ------------------------------------------------------------------ deterministic (content-named) stubs
def _sig(M):
    return hashlib.md5("|".join("%s;%s" % (z(Sym.lift(e).re).sexpr(), z(Sym.lift(e).im).sexpr()) for e in numpy.asarray(M, dtype=object).flat).encode()).hexdigest()[:12]


class HashLin:
    """Cholesky inverse and SVD as content-named opaque results: the same input gives the same symbols in every
    process; nothing about their values is assumed (reproducibility does not depend on them)"""
    LinAlgError = numpy.linalg.LinAlgError

    @staticmethod
    def cho_factor(a, lower=False, **k):
        return ("cho", core.obj(a)), lower

    @staticmethod
    def cho_solve(c_and_lower, b, **k):
        (tag, a), lower = c_and_lower
        h = _sig(a)
        n = a.shape[0]
        out = numpy.empty((n, n), dtype=object)
        for i in range(n):
            for j in range(n):
                out[i, j] = Sym(z3.Real("inv!%s[%d,%d]" % (h, i, j)))
        return out.view(core.SA)

    @staticmethod
    def svd(M, *a, **k):
        M = core.obj(M)
        h = _sig(M)
        n = M.shape[0]
        U = numpy.empty((n, n), dtype=object)
        W = numpy.empty(n, dtype=object)
        for i in range(n):
            W[i] = Sym(z3.Real("svdw!%s[%d]" % (h, i)))
            for j in range(n):
                U[i, j] = Sym(z3.Real("svdU!%s[%d,%d]" % (h, i, j)))
        return U.view(core.SA), W.view(core.SA), U.T.view(core.SA)


class CovUF:
    @staticmethod
    def phase_covariance(r, r0, L0):
        f = core.uf("phase_cov", 3)

        def one(e):
            e = Sym.lift(e)
            q = e.sq_of if e.sq_of is not None else (e * e).re
            return Sym(f(core.canon(q), z(Sym.lift(r0).re), z(Sym.lift(L0).re)))
        out = numpy.empty(numpy.shape(r), dtype=object)
        for i in numpy.ndindex(*out.shape):
            out[i] = one(numpy.asarray(r, dtype=object)[i])
        return out.view(core.SA)


class Env:
    def __init__(self):
        self.ps, self.ips = _mods()
        self.proxy = npx.NP()
        self.proxy.linalg = HashLin()
        St.pow_mode = "uf"

    def ctxmgr(self):
        return npx.symbolic(self.ps, self.ips, proxy=self.proxy, extra={self.ips.__name__: {"turb": CovUF()}})


PARAMS = dict(r0=var("r0"), L0=var("L0"), delta=var("delta"), l0=var("l0"), seed=core.int_var("seed"))
PRE = [z(PARAMS[k].re) > 0 for k in ("r0", "L0", "delta", "l0")] + [z(PARAMS["seed"].re) >= 0, z(PARAMS["seed"].re) == z3.ToReal(z3.ToInt(z(PARAMS["seed"].re)))]
N_FFT = 2


def target(env, name, seed):
    """the seeded computation whose reproducibility is claimed; returns a list of arrays"""
    P = PARAMS
    if name in ("ft", "ft3"):
        return [env.ps.ft_phase_screen(P["r0"], N_FFT if name == "ft" else 3, P["delta"], P["L0"], P["l0"], seed=seed)]
    if name in ("ftsh", "ftsh3"):
        return [env.ps.ft_sh_phase_screen(P["r0"], N_FFT if name == "ftsh" else 3, P["delta"], P["L0"], P["l0"], seed=seed)]
    if name in ("vk", "vk3"):
        s = env.ips.PhaseScreenVonKarman(2 if name == "vk" else 3, P["delta"], P["r0"], P["L0"], random_seed=seed, n_columns=2)
    else:
        s = env.ips.PhaseScreenKolmogorov(2, P["delta"], P["r0"], P["L0"], random_seed=seed, stencil_length_factor=1)
    out = [numpy.asarray(s.scrn, dtype=object).copy()]
    for i in range(2):
        _live_tick(env, i)
        out.append(numpy.asarray(s.add_row(), dtype=object).copy())
    return out


_live = [False]


def _live_tick(env, i):
    """with the op "live-others" in the history: the other screen objects stay in use while the target adds its rows
    (each adds a row between two rows of the target; one more instance is constructed after the first row)"""
    if not _live[0]:
        return
    for o in list(_keep):
        o.add_row()
    if i == 1:
        o = env.ips.PhaseScreenKolmogorov(2, PARAMS["delta"], PARAMS["r0"], PARAMS["L0"], random_seed=None, stencil_length_factor=1)
        _keep.append(o)


LIVE = "live-others"
OPS = ["other-vk", "other-fried-row", "global-seed", "global-draw", "ft-other-l0", "ftsh-other", "same-seed-other-instance"]
_keep = []


def do_op(env, op, k):
    """one interleaved operation (k makes its symbolic arguments distinct)"""
    P = PARAMS
    s2 = var("seed%d" % k)
    if op == "other-vk":
        o = env.ips.PhaseScreenVonKarman(2, P["delta"], var("r0x%d" % k), P["L0"], random_seed=s2, n_columns=2)
        o.add_row()
        _keep.append(o)
    elif op == "other-fried-row":
        o = env.ips.PhaseScreenKolmogorov(2, P["delta"], P["r0"], P["L0"], random_seed=None, stencil_length_factor=1)
        o.add_row()
        _keep.append(o)
    elif op == "global-seed":
        env.proxy.random.seed(s2)
    elif op == "global-draw":
        env.proxy.random.normal(size=3)
    elif op == "ft-other-l0":
        env.ps.ft_phase_screen(P["r0"], N_FFT, P["delta"], P["L0"], var("l0x%d" % k), seed=s2)
    elif op == "ftsh-other":
        env.ps.ft_sh_phase_screen(var("r0x%d" % k), N_FFT, P["delta"], P["L0"], P["l0"], seed=None)
    elif op == "same-seed-other-instance":
        o = env.ips.PhaseScreenVonKarman(2, P["delta"], P["r0"], P["L0"], random_seed=P["seed"], n_columns=2)
        o.add_row()
        _keep.append(o)
    elif op == LIVE:
        _live[0] = True


def serialise(arrs):
    sx = []
    s = z3.Solver()
    k = 0
    for a in arrs:
        for e in numpy.asarray(a, dtype=object).flat:
            e = Sym.lift(e)
            for part in (e.re, e.im):
                t = z(part)
                sx.append(t.sexpr())
                s.add(z3.Real("res!%d" % k) == t)
                k += 1
    return dict(sexpr=sx, smt2=s.to_smt2(), shapes=[list(numpy.shape(a)) for a in arrs])


def reference_run(tname):
    """in a process with no history: the seeded target, serialised"""
    St.reset()
    env = Env()
    with env.ctxmgr():
        paths, ex = core.run_paths(lambda: target(env, tname, PARAMS["seed"]), PRE)
    return [dict(pc=[c.sexpr() for c in p.pc], exc=repr(p.exc) if p.exc else None, res=serialise(p.out) if p.exc is None else None) for p in paths]


# ------------------------------------------------------------------ replay on the real code (real numpy Generator)
def real_run(tname, ops, vals):
    ps, ips = _mods()
    keep = []
    for k, op in enumerate(ops):
        s2 = 1000 + k
        if op == "other-vk":
            o = ips.PhaseScreenVonKarman(8, vals["delta"], vals["r0"] * 1.5, vals["L0"], random_seed=s2, n_columns=2)
            o.add_row()
            keep.append(o)
        elif op == "other-fried-row":
            o = ips.PhaseScreenKolmogorov(8, vals["delta"], vals["r0"], vals["L0"], random_seed=None, stencil_length_factor=1)
            o.add_row()
            keep.append(o)
        elif op == "global-seed":
            numpy.random.seed(s2)
        elif op == "global-draw":
            numpy.random.normal(size=3)
        elif op == "ft-other-l0":
            ps.ft_phase_screen(vals["r0"], 8, vals["delta"], vals["L0"], vals["l0"] * 3.0, seed=s2)
        elif op == "ftsh-other":
            ps.ft_sh_phase_screen(vals["r0"] * 1.5, 8, vals["delta"], vals["L0"], vals["l0"], seed=None)
        elif op == "same-seed-other-instance":
            o = ips.PhaseScreenVonKarman(8, vals["delta"], vals["r0"], vals["L0"], random_seed=vals["seed"], n_columns=2)
            o.add_row()
            keep.append(o)
    live = LIVE in ops
    seed = vals["seed"]
    if tname in ("ft", "ft3"):
        out = [ps.ft_phase_screen(vals["r0"], 8 if tname == "ft" else 9, vals["delta"], vals["L0"], vals["l0"], seed=seed)]
    elif tname in ("ftsh", "ftsh3"):
        out = [ps.ft_sh_phase_screen(vals["r0"], 8 if tname == "ftsh" else 9, vals["delta"], vals["L0"], vals["l0"], seed=seed)]
    else:
        s = ips.PhaseScreenVonKarman(8 if tname == "vk" else 9, vals["delta"], vals["r0"], vals["L0"], random_seed=seed, n_columns=2) if tname in ("vk", "vk3") else \
            ips.PhaseScreenKolmogorov(8, vals["delta"], vals["r0"], vals["L0"], random_seed=seed, stencil_length_factor=1)
        out = [numpy.array(s.scrn)]
        for i in range(3):
            if live:
                for o in list(keep):
                    o.add_row()
                if i == 1:
                    keep.append(ips.PhaseScreenKolmogorov(8, vals["delta"], vals["r0"], vals["L0"], random_seed=None, stencil_length_factor=1))
            out.append(numpy.array(s.add_row()))
    return [hashlib.sha256(numpy.ascontiguousarray(a, dtype=float).tobytes()).hexdigest() for a in out]


def _real_edit_then_again(tname, vals):
    """real code: make the seeded screen, edit it in place, make it again: True if the second differs from the first as made"""
    ps, ips = _mods()
    if tname not in ("ft", "ft3", "ftsh", "ftsh3"):
        return False
    f = ps.ft_phase_screen if tname in ("ft", "ft3") else ps.ft_sh_phase_screen
    n = 8 if tname in ("ft", "ftsh") else 9
    a = f(vals["r0"], n, vals["delta"], vals["L0"], vals["l0"], seed=vals["seed"])
    keep = numpy.array(a, copy=True)
    a *= 2.0
    a += 7.0
    b = f(vals["r0"], n, vals["delta"], vals["L0"], vals["l0"], seed=vals["seed"])
    return not numpy.array_equal(numpy.asarray(b), keep)


def replay_history(tname, ops, vals):
    ref = harness.pristine_eval(real_run, tname, [], vals)
    a = harness.pristine_eval(real_run, tname, list(ops), vals)
    b = harness.pristine_eval(real_run, tname, list(ops) + list(ops), vals)
    bad = ref != a or ref != b
    if not bad and harness.pristine_eval(_real_edit_then_again, tname, vals):
        return True, dict(what="seeded %s: after the caller edited the first screen in place, the same call returns a different screen (a shared / memoised array)" % tname,
                          seed=vals["seed"], params=vals)
    return bad, dict(what="seeded %s differs from the history-free run after %s" % (tname, list(ops)) if bad else "bit-identical", seed=vals["seed"], params=vals,
                     reference=ref[:2], after_history=a[:2])


def _unseeded_after_global_seed(tname, vals):
    v = dict(vals)
    v["seed"] = None
    numpy.random.seed(1234)
    a = real_run(tname, [], v)
    numpy.random.seed(1234)
    b = real_run(tname, [], v)
    return a, b


def replay_unseeded_global(tname, vals):
    a, b = harness.pristine_eval(_unseeded_after_global_seed, tname, vals)
    return a == b, dict(what="two unseeded %s screens made after numpy.random.seed(1234) are %s" % (tname, "IDENTICAL" if a == b else "different"))


def replay_differ(tname, s1, s2, vals):
    s1, s2 = int(round(float(s1))), int(round(float(s2)))
    if s1 == s2 or s1 < 0 or s2 < 0:
        return False, dict(what="witness seeds are not two different non-negative integers", seeds=[s1, s2])
    v1, v2 = dict(vals), dict(vals)
    v1["seed"], v2["seed"] = s1, s2
    a = harness.pristine_eval(real_run, tname, [], v1)
    b = harness.pristine_eval(real_run, tname, [], v2)
    return a == b, dict(what="seeds %d and %d give %s screens" % (s1, s2, "IDENTICAL" if a == b else "different"), seeds=[s1, s2])


def model_params(m):
    vals = {}
    for k in ("r0", "L0", "delta", "l0"):
        try:
            v = float(m(PARAMS[k]))
        except Exception:
            v = 0.0
        vals[k] = v if v > 0 else 0.5
    vals["r0"] = min(max(vals["r0"], 0.05), 5.0)
    vals["L0"] = min(max(vals["L0"], 5.0), 100.0)
    vals["delta"] = min(max(vals["delta"], 0.01), 1.0)
    vals["l0"] = min(max(vals["l0"], 0.001), 0.1)
    try:
        vals["seed"] = int(round(float(m(PARAMS["seed"]))))
    except Exception:
        vals["seed"] = 7
    return vals


# ------------------------------------------------------------------ the case: one history
def case_history(ctx, tname, ops):
    ps, ips = _mods()
    ctx.encoded(ps.ft_phase_screen, ps.ft_sh_phase_screen, ps.ift2, ips.PhaseScreen.make_initial_screen, ips.PhaseScreen.get_new_row, ips.PhaseScreen.add_row)
    ctx.bounds.update(target=tname, history=list(ops), grid="N = 2 (FFT screens), nx = 2 (infinite screens), 2 added rows", seed="symbolic integer >= 0",
                      parameters="r0, L0, pixel size, l0 symbolic > 0")
    ctx.assume("NumPy's Generator/RandomState follow their documented seeding semantics (stream model); pocketfft is a function of its input")
    ctx.assume("Cholesky inverse / SVD / phase_covariance results are content-named opaque values (nothing assumed about them)")
    ref = harness.pristine_eval(reference_run, tname)
    env = Env()

    def go():
        del _keep[:]
        _live[0] = False
        with env.ctxmgr():
            for k, op in enumerate(ops):
                do_op(env, op, k)
            t1 = target(env, tname, PARAMS["seed"])
            # the caller owns what it was handed: it works on the first reproduction in place (unit conversion, piston
            # removal) - a later reproduction must not show that
            t1c = [numpy.asarray(a, dtype=object).copy() for a in t1]
            for a in t1:
                if isinstance(a, numpy.ndarray) and a.size:
                    try:
                        if not a.flags.writeable:        # (an engine artefact: real screens are writable)
                            a.flags.writeable = True
                        a[...] = a * 2 + 7
                    except Exception:
                        pass
            for k, op in enumerate(ops):
                do_op(env, op, 10 + k)
            t2 = target(env, tname, PARAMS["seed"])
            return t1c, t2
    paths, ex = core.run_paths(go, PRE, max_paths=200)
    ctx.explored(ex, len(paths))
    rp = lambda m: replay_history(tname, ops, model_params(m))
    ctx.fallback = rp
    names = dict(seed=PARAMS["seed"])
    for pi, p in enumerate(paths):
        hyp = PRE + p.pc
        if p.exc is not None:
            ctx.prove("path%d raises %s" % (pi, type(p.exc).__name__), hyp, z3.BoolVal(False), replay=rp, witness_terms=names, axioms=False)
            continue
        t1, t2 = p.out
        g = []
        for a, b in zip(t1, t2):
            g += eqs(a, b)
        ctx.prove("path%d: second reproduction (after more interleaving) is the same term array as the first" % pi, hyp, conj(g), replay=rp, witness_terms=names, axioms=False,
                  timeout_ms=15000, replay_on_unknown=True)
        # against the history-free reference: find the reference path compatible with this path
        s1 = serialise(t1)
        matched = False
        for rpth in ref:
            if rpth["exc"] is not None:
                continue
            if rpth["res"]["sexpr"] == s1["sexpr"]:
                matched = True
                break
        if matched:
            ctx.prove("path%d: equals the history-free reference (identical serialised terms)" % pi, hyp, z3.BoolVal(True), replay=rp, witness_terms=names, axioms=False)
            continue
        # not syntactically identical to any reference path: ask the solver on the parsed reference terms
        alts = []
        for rpth in ref:
            if rpth["exc"] is not None:
                continue
            sol = z3.Solver()
            sol.from_string(rpth["res"]["smt2"])
            rterms = [a.arg(1) for a in sol.assertions()]
            cur = []
            for a in t1:
                for e in numpy.asarray(a, dtype=object).flat:
                    e = Sym.lift(e)
                    cur += [z(e.re), z(e.im)]
            if len(cur) != len(rterms):
                continue
            pcs = z3.Solver()
            pc_terms = []
            for c in rpth["pc"]:
                pass
            alts.append(z3.And(*[x == y for x, y in zip(cur, rterms)]))
        goal = z3.Or(*alts) if alts else z3.BoolVal(False)
        ctx.prove("path%d: equals the history-free reference" % pi, hyp, goal, replay=rp, witness_terms=names, timeout_ms=15000, replay_on_unknown=True)
    ctx.prove("guard: preconditions satisfiable", PRE, z3.BoolVal(False), expect="sat", kind="vacuity", axioms=False)


def case_differ(ctx, tname):
    """different seeds / unseeded calls are not forced equal"""
    env = Env()
    ctx.bounds.update(target=tname)
    s2 = core.int_var("seedB")
    with env.ctxmgr():
        paths, ex = core.run_paths(lambda: (target(env, tname, PARAMS["seed"]), target(env, tname, s2), target(env, tname, None), target(env, tname, None)),
                                   PRE + [z(s2.re) >= 0, z(s2.re) != z(PARAMS["seed"].re)], max_paths=50)
    ctx.explored(ex, len(paths))
    for pi, p in enumerate(paths):
        if p.exc is not None:
            continue
        a, b, u1, u2 = p.out
        hyp = PRE + p.pc
        def draws(arr):
            names = set()
            for e in numpy.asarray(arr, dtype=object).flat:
                stack = [z(Sym.lift(e).re)]
                seen = set()
                while stack:
                    x = stack.pop()
                    if x.get_id() in seen:
                        continue
                    seen.add(x.get_id())
                    if z3.is_app(x) and x.decl().name() == "draw":
                        names.add(x.sexpr())
                    stack.extend(x.children())
            return names
        def stream_ids(arr):
            ids = {}
            for e in numpy.asarray(arr, dtype=object).flat:
                stack = [z(Sym.lift(e).re)]
                seen = set()
                while stack:
                    x = stack.pop()
                    if x.get_id() in seen:
                        continue
                    seen.add(x.get_id())
                    if z3.is_app(x) and x.decl().name() == "draw":
                        ids[x.arg(0).get_id()] = x.arg(0)
                    stack.extend(x.children())
            return list(ids.values())
        ia, ib = stream_ids(a[0]), stream_ids(b[0])
        # different seeds select different streams: the stream identifiers (functions of the seed as the code hands it
        # to the generator) cannot coincide for two different non-negative integer seeds
        s2i = [z(s2.re) == z3.ToReal(z3.ToInt(z(s2.re))), z(s2.re) >= 0, z(s2.re) != z(PARAMS["seed"].re)]
        ctx.prove("path%d: two different seeds never select the same random stream" % pi, hyp + s2i,
                  conj([x != y for x in ia for y in ib]) if ia and ib else z3.BoolVal(False),
                  replay=lambda m: replay_differ(tname, m(PARAMS["seed"]), m(s2), model_params(m)), witness_terms=dict(seed=PARAMS["seed"], seedB=s2), timeout_ms=30000)
        da, db, d1, d2 = draws(a[0]), draws(b[0]), draws(u1[0]), draws(u2[0])
        # the screens are functions of disjoint sets of independent draws, hence not forced equal; one pixel is also
        # handed to the solver (expected sat)
        ctx.prove("path%d: different seeds read disjoint draws" % pi, hyp, z3.BoolVal(bool(da) and not (da & db)), replay=lambda m: (True, dict(what="two seeds share draws")), axioms=False)
        # unseeded screens made after the global NumPy state was reset to the same value must still differ: the library
        # may not derive its "fresh entropy" from numpy.random's global stream
        with env.ctxmgr():
            env.proxy.random.seed(var("gseed"))
            g1 = target(env, tname, None)
            env.proxy.random.seed(var("gseed"))
            g2 = target(env, tname, None)
        dg1, dg2 = draws(g1[0]), draws(g2[0])
        ctx.prove("path%d: two unseeded calls made after identical numpy.random.seed(k) read disjoint draws" % pi, hyp,
                  z3.BoolVal(bool(dg1) and not (dg1 & dg2)), replay=lambda m: replay_unseeded_global(tname, model_params(m)), axioms=False)
        ctx.prove("path%d: two unseeded calls read disjoint draws" % pi, hyp, z3.BoolVal(bool(d1) and not (d1 & d2)), replay=lambda m: (True, dict(what="unseeded calls share draws")), axioms=False)
        ctx.prove("path%d: seeded and unseeded calls read disjoint draws" % pi, hyp, z3.BoolVal(not (da & d1)), replay=lambda m: (True, dict(what="seeded and unseeded share draws")), axioms=False)
        if tname == "ft":
            ctx.prove("path%d: different seeds are not forced to give the same pixel" % pi, hyp, conj(eqs(a[0][0, 0], b[0][0, 0])), expect="sat", kind="sensitivity", axioms=False, timeout_ms=20000)
        break


def build_cases(tier):
    import itertools
    cases = []
    targets = ["ft", "ftsh", "vk", "fried"]
    progs = [()] + [(o,) for o in OPS]
    if tier == "quick":
        progs += [("ft-other-l0", "other-vk"), ("global-seed", "global-draw"), ("other-fried-row", "ftsh-other"), ("same-seed-other-instance", "global-draw")]
    else:
        progs += [p for p in itertools.product(OPS, repeat=2)]
        progs += [("ft-other-l0", "other-vk", "global-seed"), ("same-seed-other-instance", "other-fried-row", "ftsh-other"), ("global-draw", "global-seed", "ft-other-l0")]
    live_progs = [("other-vk", LIVE), ("other-fried-row", LIVE), ("same-seed-other-instance", LIVE)]
    if tier != "quick":
        live_progs += [("other-vk", "other-fried-row", LIVE), (LIVE,), ("global-seed", "other-vk", LIVE)]
    # odd grid sizes (N = 3 symbolic, 9 in the replay): one history each
    for t in ("ft3", "ftsh3", "vk3"):
        for p in ([(), ("global-draw",)] if tier == "quick" else [(), ("global-draw",), ("other-vk",), ("ft-other-l0", "global-seed")]):
            cases.append(("%s/history=%s" % (t, "+".join(p) or "none"), case_history, dict(tname=t, ops=list(p))))
    for t in targets:
        for p in progs + (live_progs if t in ("vk", "fried") else []):
            cases.append(("%s/history=%s" % (t, "+".join(p) or "none"), case_history, dict(tname=t, ops=list(p))))
        cases.append(("%s/differ" % t, case_differ, dict(tname=t)))
    return cases


if __name__ == "__main__":
    sys.exit(harness.main("C06", build_cases, FILES))
