"""C16  Binning and radial reductions preserve image content (zoom is outside: FITPACK).

Real functions executed symbolically: aotools.interpolation.binImgs, aotools.image_processing.psf.
{azimuthal_average, encircled_energy} (with the real functions.pupil.circle underneath) on symbolic images.
NOT claimed: zoom / zoom_rbs are calls into FITPACK (RectBivariateSpline, interp2d) - no encoding.
"""
import sys

from .common import *  # noqa: F401,F403
from .common import numpy, z3, core, npx, harness, Sym, St, Fr, z, var, symarr, eqs, conj, all_eq

FILES = ["aotools/interpolation.py", "aotools/image_processing/psf.py", "aotools/functions/pupil.py"]


def _mods():
    import aotools.interpolation as ip
    import aotools.image_processing.psf as psf
    import aotools.functions.pupil as pupil
    return ip, psf, pupil


# ------------------------------------------------------------------ binImgs
def block_sums(data, n):
    data = numpy.asarray(data, dtype=object)
    sh = data.shape[:-2] + (data.shape[-2] // n, data.shape[-1] // n)
    out = numpy.empty(sh, dtype=object)
    for idx in numpy.ndindex(*sh):
        acc = Sym(0)
        for a in range(n):
            for b in range(n):
                acc = acc + data[idx[:-2] + (idx[-2] * n + a, idx[-1] * n + b)]
        out[idx] = acc
    return out


def _layout(a, layout):
    """the same values in another memory layout: 'T' = transposed view of the transposed copy, 'F' = Fortran order,
    'S' = every second sample of a larger buffer, 'W' = window cut from a larger frame"""
    if layout == "T":
        return numpy.ascontiguousarray(numpy.swapaxes(a, -1, -2)).swapaxes(-1, -2)
    if layout == "F":
        return numpy.asfortranarray(a)
    if layout == "S":
        big = numpy.zeros(a.shape[:-2] + (2 * a.shape[-2], 2 * a.shape[-1]), dtype=a.dtype)
        if a.dtype == object:
            big[...] = Sym(0)
        big[..., ::2, ::2] = a
        return big[..., ::2, ::2]
    if layout == "W":
        big = numpy.zeros(a.shape[:-2] + (a.shape[-2] + 2, a.shape[-1] + 3), dtype=a.dtype)
        if a.dtype == object:
            big[...] = Sym(7)
        else:
            big[...] = 7
        big[..., 1:-1, 2:-1] = a
        return big[..., 1:-1, 2:-1]
    return a.copy()


def replay_bin(data, n, layout=None):
    ip, _, _ = _mods()
    data = numpy.asarray(data, dtype=float)
    work = _layout(data, layout)
    got = ip.binImgs(work, n)
    got2 = ip.binImgs(work, n)
    want = numpy.zeros(data.shape[:-2] + (data.shape[-2] // n, data.shape[-1] // n))
    for idx in numpy.ndindex(*want.shape):
        want[idx] = data[idx[:-2] + (slice(idx[-2] * n, idx[-2] * n + n), slice(idx[-1] * n, idx[-1] * n + n))].sum()
    bad = got.shape != want.shape or not numpy.allclose(got, want) or not numpy.allclose(got2, want)
    return bool(bad), dict(what="binImgs differs from the n x n block sums (first or repeated call on the same array)", data=data, n=n, got=got, second=got2, want=want)


def case_bin(ctx, shape, n, layout=None):
    ip, _, _ = _mods()
    data = symarr("d", shape)
    ctx.encoded(ip.binImgs)
    ctx.bounds.update(shape=list(shape), n=n, data="symbolic real", memory_layout=layout or "C-contiguous")
    work = _layout(data, layout)
    if layout:
        work = work.view(core.SA)
    ctx.fallback = lambda m: replay_bin(m(data), n, layout)
    with npx.symbolic(ip):
        out = ip.binImgs(work, n)
        out_again = ip.binImgs(work, n)      # the same array object a second time (no state may be left in it)
    ctx.paths += 1
    rp = lambda m: replay_bin(m(data), n, layout)
    ctx.fallback = rp
    want = block_sums(data, n)
    ctx.prove("binImgs = n x n block sums", [], all_eq(numpy.asarray(out, dtype=object), want), replay=rp)
    ctx.prove("binning the same array a second time returns the same block sums", [], all_eq(numpy.asarray(out_again, dtype=object), want), replay=rp)
    tot_o = Sym(0)
    for e in numpy.asarray(out, dtype=object).flat:
        tot_o = tot_o + e
    tot_i = Sym(0)
    for e in data.flat:
        tot_i = tot_i + e
    ctx.prove("total flux preserved", [], conj(eqs(tot_o, tot_i)), replay=rp)
    ctx.prove("guard: doubled block sums are refutable", [], all_eq(numpy.asarray(out, dtype=object), want * 2),
              expect="sat", kind="sensitivity")
    ctx.validate("binImgs", evaluate(numpy.asarray(out, dtype=object), assign_of(data, rand_real(rng_for("bin"), shape))),
                 lambda: ip.binImgs(rand_real(rng_for("bin"), shape), n))


# ------------------------------------------------------------------ azimuthal average
def replay_azi(data):
    _, psf, _ = _mods()
    data = numpy.asarray(data, dtype=float)
    avg = psf.azimuthal_average(data.copy())
    bad = bool(numpy.any(avg > data.max() + 1e-9) or numpy.any(avg < data.min() - 1e-9) or numpy.any(~numpy.isfinite(avg)))
    if float(data.max()) == float(data.min()):
        bad = bad or not numpy.allclose(avg, data.max())
    return bad, dict(what="azimuthal average outside [min,max] / constant not preserved", data=data, avg=avg)


def case_azi(ctx, size):
    _, psf, pupil = _mods()
    data = symarr("d", (size, size))
    c = var("c")
    ctx.encoded(psf.azimuthal_average, pupil.circle)
    ctx.bounds.update(size=size, data="symbolic real")
    with npx.symbolic(psf, pupil):
        avg = numpy.asarray(psf.azimuthal_average(data), dtype=object)
        const = core.obj(numpy.zeros((size, size))) + c
        avgc = numpy.asarray(psf.azimuthal_average(const), dtype=object)
    ctx.paths += 1
    rp = lambda m: replay_azi(m(data))
    ctx.fallback = rp
    ctx.prove("length is size/2", [], z3.BoolVal(len(avg) == size // 2), replay=rp, axioms=False)
    ctx.prove("constant image -> that constant in every ring", [], all_eq(avgc, numpy.array([c] * len(avgc), dtype=object)),
              replay=lambda m: replay_azi(numpy.full((size, size), m(c))), witness_terms=dict(c=c))
    for i in range(len(avg)):
        a = z(Sym.lift(avg[i]).re)
        le_max = z3.Or(*[a <= z(e.re) for e in data.flat])
        ge_min = z3.Or(*[a >= z(e.re) for e in data.flat])
        ctx.prove("ring %d within [min, max] of the image" % i, [], z3.And(le_max, ge_min), replay=rp)
    rng = rng_for("azi%d" % size)
    dv = rand_real(rng, (size, size))
    ctx.validate("azimuthal_average", evaluate(avg, assign_of(data, dv)), lambda: psf.azimuthal_average(dv.copy()))


# ------------------------------------------------------------------ encircled energy
def replay_ee(data, center, fraction):
    _, psf, _ = _mods()
    data = numpy.abs(numpy.asarray(data, dtype=float)) + 1e-6
    x, y = psf.encircled_energy(data.copy(), fraction=fraction, center=center, eeDiameter=False)
    bad = bool(abs(y[0]) > 1e-12 or numpy.any(numpy.diff(y) < -1e-12) or numpy.any(y > 1 + 1e-12) or len(x) != len(y))
    d = psf.encircled_energy(data.copy(), fraction=fraction, center=center, eeDiameter=True)
    k = int(numpy.argmin(numpy.abs(y - fraction)))
    bad = bad or abs(d - x[k]) > 1e-12
    return bad, dict(what="encircled energy curve must start at 0, be non-decreasing, <= 1; diameter = closest grid point to the fraction",
                     data=data, center=center, fraction=fraction, curve=y, diameter=d)


def case_ee(ctx, size, center):
    _, psf, pupil = _mods()
    St.pow_mode = "float"
    ctx.assume("concrete irrational radii (linspace(...)**1.9) evaluated in floating point, as the code itself does")
    data = symarr("d", (size, size))
    pre = [z(e.re) >= 0 for e in data.flat] + [z(numpy.sum(data).re) > 0]
    ctx.encoded(psf.encircled_energy, pupil.circle)
    ctx.bounds.update(size=size, center=str(center), data="symbolic non-negative, positive sum", fraction="symbolic in (0,1)")
    frac = var("frac")

    def go():
        with npx.symbolic(psf, pupil):
            x, y = psf.encircled_energy(data, center=center, eeDiameter=False)
            return numpy.asarray(x, dtype=object), numpy.asarray(y, dtype=object)
    paths, ex = core.run_paths(go, pre)
    ctx.explored(ex, len(paths))
    for pi, p in enumerate(paths):
        hyp = pre + p.pc
        rp = lambda m: replay_ee(m(data), center, 0.5)
        if p.exc is not None:
            ctx.prove("curve/path%d raises %s" % (pi, type(p.exc).__name__), hyp, z3.BoolVal(False), replay=rp, axioms=False)
            continue
        x, y = p.out
        ctx.prove("curve/path%d: starts at 0" % pi, hyp, conj(eqs(y[0], Sym(0))), replay=rp)
        mono = [z(Sym.lift(y[k + 1]).re) >= z(Sym.lift(y[k]).re) for k in range(len(y) - 1)]
        ctx.prove("curve/path%d: never decreases" % pi, hyp, conj(mono), replay=rp)
        ctx.prove("curve/path%d: never exceeds 1" % pi, hyp, conj([z(Sym.lift(e).re) <= 1 for e in y]), replay=rp)
        ctx.prove("curve/path%d: x and y have the same length 4*dim" % pi, hyp, z3.BoolVal(len(x) == len(y) == 4 * (size // 2)), replay=rp, axioms=False)
    # the reported diameter is the grid point whose curve value is closest to the fraction
    pre2 = pre + [z(frac.re) > 0, z(frac.re) < 1]

    def go2():
        with npx.symbolic(psf, pupil):
            d = psf.encircled_energy(data, fraction=frac, center=center, eeDiameter=True)
            x, y = psf.encircled_energy(data, center=center, eeDiameter=False)
            return d, numpy.asarray(x, dtype=object), numpy.asarray(y, dtype=object)
    paths2, ex2 = core.run_paths(go2, pre2)
    ctx.explored(ex2, len(paths2))
    for pi, p in enumerate(paths2):
        hyp = pre2 + p.pc
        if p.exc is not None:
            ctx.prove("diameter/path%d raises %s" % (pi, type(p.exc).__name__), hyp, z3.BoolVal(False),
                      replay=lambda m: replay_ee(m(data), center, m(frac)), axioms=False)
            continue
        d, x, y = p.out
        d = Sym.lift(d)
        alts = []
        for k in range(len(x)):
            dk = abs(Sym.lift(y[k]) - frac)
            best = [z(dk.re) <= z(abs(Sym.lift(y[j]) - frac).re) for j in range(len(x))]
            alts.append(z3.And(z(d.re) == z(Sym.lift(x[k]).re), *best))
        ctx.prove("diameter/path%d: reported diameter is the grid point closest to the requested fraction" % pi, hyp, z3.Or(*alts),
                  replay=lambda m: replay_ee(m(data), center, m(frac)), witness_terms=dict(fraction=frac), timeout_ms=60000)
    ctx.prove("guard: preconditions satisfiable", pre2, z3.BoolVal(False), expect="sat", kind="vacuity", axioms=False)
    rng = rng_for("ee%d" % size)
    dv = numpy.abs(rand_real(rng, (size, size))) + 0.25
    for p in paths:
        if p.exc is None:
            ctx.validate("encircled_energy curve", evaluate(p.out[1], assign_of(data, dv)),
                         lambda: psf.encircled_energy(dv.copy(), center=center, eeDiameter=False)[1])
            break


def build_cases(tier):
    cases = []
    bins = [((2, 2), 1), ((2, 2), 2), ((4, 4), 2), ((4, 6), 2), ((6, 6), 3), ((2, 4, 4), 2), ((3, 3), 3)]
    if tier == "thorough":
        bins += [((6, 6), 2), ((8, 8), 4), ((2, 6, 6), 3), ((2, 2, 4, 4), 2), ((6, 9), 3), ((8, 8), 2)]
    for shape, n in bins:
        cases.append(("bin/%s/n=%d" % ("x".join(map(str, shape)), n), case_bin, dict(shape=shape, n=n)))
    for shape, n, lay in [((4, 6), 2, "T"), ((4, 4), 2, "F"), ((4, 4), 2, "S"), ((2, 4), 2, "W")] + ([] if tier == "quick" else [((2, 4, 4), 2, "T"), ((6, 6), 3, "S"), ((6, 4), 2, "W")]):
        cases.append(("bin/%s/n=%d/layout=%s" % ("x".join(map(str, shape)), n, lay), case_bin, dict(shape=shape, n=n, layout=lay)))
    for size in ([2, 4, 6] if tier == "quick" else [2, 4, 6, 8, 5]):
        cases.append(("azimuthal/size=%d" % size, case_azi, dict(size=size)))
    ee = [(4, None), (4, [1.5, 1.5]), (4, [2.5, 1.5]), (4, [2, 1])]
    if tier == "thorough":
        ee += [(6, None), (6, [2.5, 2.5]), (6, [3.5, 1.5]), (2, None), (2, [0.5, 0.5])]
    for size, cen in ee:
        cases.append(("ee/size=%d/center=%s" % (size, "default" if cen is None else ",".join(map(str, cen))), case_ee, dict(size=size, center=cen)))
    return cases




# ------------------------------------------------------------------ zoom_rbs under the interpolation contract
class ComplexSA(core.SA):
    """an object array that announces itself as complex128 to `array.dtype == numpy.complex128` tests"""
    @property
    def dtype(self):
        return numpy.dtype("complex128")


class Complex64SA(core.SA):
    """... or as single-precision complex"""
    @property
    def dtype(self):
        return numpy.dtype("complex64")


class RBSStub:
    """RectBivariateSpline by contract: an interpolating spline (s=0) returns the data at its nodes; any other
    value is an uninterpreted function of (data, kx, ky, x, y).  Two splines built from the same data and
    orders are the same function."""
    calls = []

    def __init__(self, x, y, zdata, bbox=None, kx=3, ky=3, s=0):
        self.x = [Sym.lift(v) for v in numpy.asarray(x, dtype=object)]
        self.y = [Sym.lift(v) for v in numpy.asarray(y, dtype=object)]
        self.z = numpy.asarray(zdata, dtype=object)
        self.kx, self.ky = int(kx), int(ky)
        self.sig = "|".join("%s;%s" % (z(Sym.lift(e).re).sexpr(), z(Sym.lift(e).im).sexpr()) for e in self.z.flat)
        RBSStub.calls.append(self)
        if self.z.shape != (len(self.x), len(self.y)):
            raise ValueError("x dimension of z must have same number of elements as x")
        if any(not Sym.lift(e).isreal() for e in self.z.flat):
            raise TypeError("RectBivariateSpline does not accept complex data")

    def __call__(self, xs, ys, grid=True):
        import hashlib
        xs = [Sym.lift(v) for v in numpy.asarray(xs, dtype=object)]
        ys = [Sym.lift(v) for v in numpy.asarray(ys, dtype=object)]
        out = numpy.empty((len(xs), len(ys)), dtype=object)
        for a, xv in enumerate(xs):
            for b, yv in enumerate(ys):
                i = [k for k, n in enumerate(self.x) if n.isconc() and xv.isconc() and n.re == xv.re]
                j = [k for k, n in enumerate(self.y) if n.isconc() and yv.isconc() and n.re == yv.re]
                if i and j:
                    out[a, b] = Sym.lift(self.z[i[0], j[0]])
                else:
                    h = hashlib.sha1(("%s#%d#%d#%s#%s" % (self.sig, self.kx, self.ky, xv.re, yv.re)).encode()).hexdigest()[:12]
                    out[a, b] = Sym(z3.Real("spline!" + h))
        return out.view(core.SA)


def replay_zoom(arr, new, order):
    """the spline is uninterpreted in the query, so the model's array values are arbitrary (often all zero):
    replay the model's array and, if that is degenerate, two seeded generic arrays of the same kind"""
    arr = numpy.asarray(arr)
    tries = [arr]
    rng = rng_for("zoomreplay%s%d%d" % (arr.shape, new, order))
    for _ in range(2):
        tries.append(rand_complex(rng, arr.shape).astype(arr.dtype) if numpy.iscomplexobj(arr) else rand_real(rng, arr.shape))
    last = None
    for a in tries:
        try:
            bad, detail = _replay_zoom_one(a, new, order)
        except Exception as e:      # the real code raises on an input the contract admits
            bad, detail = True, dict(what="zoom_rbs raises %s: %s" % (type(e).__name__, e), array=a, new_size=new, order=order)
        last = detail
        if bad:
            return True, detail
    return False, last


def _replay_zoom_one(arr, new, order):
    ip, _, _ = _mods()
    arr = numpy.asarray(arr)
    out = ip.zoom_rbs(arr.copy(), (new, new), order=order)
    bad = False
    what = []
    if numpy.iscomplexobj(arr):
        ref = ip.zoom_rbs(arr.real.copy(), (new, new), order=order) + 1j * ip.zoom_rbs(arr.imag.copy(), (new, new), order=order)
        if out.shape != ref.shape or not numpy.allclose(out, ref, atol=1e-9):
            bad = True
            what.append("complex zoom differs from zoom(real) + i zoom(imag)")
    n = arr.shape[0]
    if new == n and not numpy.allclose(out, arr, atol=1e-9):
        bad = True
        what.append("unchanged size does not return the input")
    if new == 2 * n - 1 and not numpy.allclose(out[::2, ::2], arr, atol=1e-9):
        bad = True
        what.append("new grid contains the old nodes but does not pass through the samples")
    return bad, dict(what="; ".join(what) or "zoom_rbs contract", array=arr, new_size=new, order=order)


def case_zoom(ctx, n, order, cplx, single=False):
    ip, _, _ = _mods()
    ctx.encoded(ip.zoom_rbs)
    ctx.bounds.update(n=n, order=order, complex=cplx, spline="RectBivariateSpline by contract (interpolates its nodes; otherwise uninterpreted)")
    ctx.assume("RectBivariateSpline(s=0) interpolates its data at the nodes and is a function of (data, kx, ky, point): FITPACK itself is not analysed")
    arr = symarr("a", (n, n), cplx=cplx)
    if cplx:
        arr = arr.view(Complex64SA if single else ComplexSA)
    extra = {ip.__name__: {"RectBivariateSpline": RBSStub}}
    for new in (n, 2 * n - 1, n + 1):
        rp = lambda m, new=new: replay_zoom(numpy.asarray(m(numpy.asarray(arr).view(core.SA)), dtype=(numpy.complex64 if single else complex) if cplx else float), new, order)
        try:
            with npx.symbolic(ip, extra=extra):
                out = numpy.asarray(ip.zoom_rbs(arr, (new, new), order=order), dtype=object)
                if cplx:
                    re = numpy.asarray(ip.zoom_rbs(arr.real, (new, new), order=order), dtype=object)
                    im = numpy.asarray(ip.zoom_rbs(arr.imag, (new, new), order=order), dtype=object)
        except Exception as e:      # the code under test raised
            ctx.prove("new=%d: raises %s" % (new, type(e).__name__), [], z3.BoolVal(False), replay=rp, axioms=False)
            continue
        ctx.paths += 1
        plain = numpy.asarray(arr).view(core.SA)
        if out.shape != (new, new):
            ctx.prove("new=%d: output shape" % new, [], z3.BoolVal(False), replay=rp, axioms=False)
            continue
        if cplx:
            ctx.prove("new=%d: complex zoom = zoom(real) + i zoom(imag), same spline orders" % new, [], all_eq(out, re + im * Sym(0, 1)), replay=rp)
        if new == n:
            ctx.prove("new=%d: unchanged size returns the input" % new, [], all_eq(out, plain), replay=rp)
        if new == 2 * n - 1:
            ctx.prove("new=%d: passes through the original samples" % new, [], all_eq(out[::2, ::2], plain), replay=rp)


_build_cases_base = build_cases


def build_cases(tier):
    cases = _build_cases_base(tier)
    for order in (1, 3, 5):
        for cplx in (False, True):
            cases.append(("zoom_rbs/n=%d/order=%d/%s" % (order + 1 if order > 1 else 2, order, "complex" if cplx else "real"), case_zoom,
                          dict(n=max(order + 1, 2), order=order, cplx=cplx)))
        cases.append(("zoom_rbs/n=%d/order=%d/complex64" % (order + 1 if order > 1 else 2, order), case_zoom,
                      dict(n=max(order + 1, 2), order=order, cplx=True, single=True)))
    return cases


if __name__ == "__main__":
    sys.exit(harness.main("C16", build_cases, FILES))
