"""C12  Zernike indexing, modes, normalisations and gradient matrices (decidable part).

Real functions executed symbolically:
  zernIndex with a SYMBOLIC integer Noll index j (numpy.sqrt -> algebraic square root, int() -> forks on the
  value): on every path the returned (n, m) satisfies the triangular bound n(n+1)/2 < j <= (n+1)(n+2)/2,
  |m| = Noll's row formula, n-|m| even, even j <-> m > 0, odd j <-> m < 0, and j is the only index on that
  path's (n, m) (injectivity); returned lists are fresh objects (no shared mutable state);
  phaseFromZernikes with SYMBOLIC coefficients = that linear combination of the modes of zernikeArray;
  zernikeArray(list) = the matching slices of zernikeArray(count); modes vanish outside the inscribed pupil;
  p2v / rms normalisations (concrete grids, exact term comparison);
  makegammas: with x, y symbolic, d/dx and d/dy of every Noll-normalised mode (exact Cartesian polynomial,
  differentiated by the harness) equal sum_j gamma[i,j] Z_j(x,y) - a polynomial identity over algebraic square
  roots, one query per mode and axis.
  zernikeRadialFunc(n, m, r) with r symbolic in [0, 1] = the radial polynomial with exact rational coefficients for
  every (n, m) up to n = 30 (quick) / 60 (thorough): NumPy integer tables stay native int64 in the engine, so a
  factorial table that wraps is seen;
Outside: orthonormality as the grid is refined (limit), float rounding of numpy.sqrt for j > 2^50.
"""
import math
import sys

from .common import *  # noqa: F401,F403
from .common import numpy, z3, core, npx, harness, Sym, St, Fr, z, var, symarr, eqs, conj, all_eq

FILES = ["aotools/functions/zernike.py", "aotools/functions/pupil.py"]


def _zm():
    import aotools.functions.zernike as zm
    import aotools.functions.pupil as pupil
    return zm, pupil


# ------------------------------------------------------------------ Noll index with symbolic j
def noll_oracle(j):
    n = 0
    while (n + 1) * (n + 2) // 2 < j:
        n += 1
    p = j - n * (n + 1) // 2
    am = 2 * (p // 2) if n % 2 == 0 else 2 * ((p - 1) // 2) + 1
    if am == 0:
        return n, 0
    return n, (am if j % 2 == 0 else -am)


def replay_index(j):
    zm, _ = _zm()
    j = int(j)
    got = list(zm.zernIndex(j))
    want = list(noll_oracle(j))
    return got != want, dict(what="zernIndex(%d) = %s, Noll's (n, m) is %s" % (j, got, want))


def case_index(ctx, lo, hi):
    zm, _ = _zm()
    jv = var("j")
    pre = [z(jv.re) >= lo, z(jv.re) <= hi, z(jv.re) == z3.ToReal(z3.ToInt(z(jv.re)))]
    ctx.encoded(zm.zernIndex)
    ctx.bounds.update(j="symbolic integer in [%d, %d]" % (lo, hi))

    def go():
        with npx.symbolic(zm):
            return zm.zernIndex(jv)
    paths, ex = core.run_paths(go, pre, timeout_ms=10000)
    ctx.explored(ex, len(paths))
    names = dict(j=jv)
    J = z(jv.re)
    for pi, p in enumerate(paths):
        hyp = pre + p.pc
        rp = lambda m: replay_index(round(m(jv)))
        if p.exc is not None:
            ctx.prove("path%d raises %s" % (pi, type(p.exc).__name__), hyp, z3.BoolVal(False), replay=rp, witness_terms=names, axioms=False)
            continue
        n, m = p.out
        n, m = Sym.lift(n), Sym.lift(m)
        if not (n.isconc() and m.isconc()):
            ctx.prove("path%d returns concrete integers" % pi, hyp, z3.BoolVal(False), replay=rp, witness_terms=names, axioms=False)
            continue
        n, m = int(n.re), int(m.re)
        am = abs(m)
        tri = z3.And(J > n * (n + 1) // 2, J <= (n + 1) * (n + 2) // 2)
        P = z3.ToInt(J) - n * (n + 1) // 2
        row = (2 * (P / 2) == am) if n % 2 == 0 else (2 * ((P - 1) / 2) + 1 == am)
        par = z3.BoolVal(True) if m == 0 else ((z3.ToInt(J) % 2 == 0) if m > 0 else (z3.ToInt(J) % 2 == 1))
        struct = z3.BoolVal(am <= n and (n - am) % 2 == 0)
        ctx.prove("path%d -> (n=%d, m=%d): triangular bound, Noll row position, parity/sign rule, |m|<=n, n-|m| even" % (pi, n, m), hyp,
                  z3.And(tri, row, par, struct), replay=rp, witness_terms=names, timeout_ms=20000)
        j2 = z3.Real("j2")
        # second copy of the path condition for another index j2: the defined square roots are duplicated too
        names_ = set()
        for c in hyp:
            core._consts(c, names_)
        sub = [(J, j2)]
        extra2 = []
        for nm in sorted(names_):
            sem = St.sem.get(nm)
            if sem and sem[0] == "sqrt":
                v2 = z3.Real(nm + "_2")
                sub.append((z3.Real(nm), v2))
                extra2 += [v2 >= 0, v2 * v2 == z3.substitute(sem[1], (J, j2))]
        pc2 = [z3.substitute(c, *sub) for c in hyp] + extra2
        ctx.prove("path%d -> (n=%d, m=%d): only one index maps here (injective)" % (pi, n, m), hyp + pc2, J == j2, replay=rp, witness_terms=names, timeout_ms=20000)
    ctx.prove("every j in range reaches an explored path (total)", pre, z3.Or(*[z3.And(*p.pc) if p.pc else z3.BoolVal(True) for p in paths]),
              replay=lambda m: (True, dict(what="index without a path")), witness_terms=names, timeout_ms=60000)
    ctx.prove("guard: range satisfiable", pre, z3.BoolVal(False), expect="sat", kind="vacuity", axioms=False)
    ctx.bounds["paths"] = len(paths)


def case_index_alias(ctx):
    zm, _ = _zm()
    ctx.encoded(zm.zernIndex)
    ctx.bounds.update(history="call, caller edits the returned list in place, call again")
    bad = []
    for j in (3, 7, 8, 12):
        a = zm.zernIndex(j)
        keep = list(a)
        a[1] = abs(a[1]) + 5
        b = zm.zernIndex(j)
        if list(b) != keep or a is b:
            bad.append(j)
    ctx.paths += 1
    ctx.prove("zernIndex returns a fresh list on every call (editing a result does not change later results)", [], z3.BoolVal(not bad),
              replay=lambda m: (True, dict(what="zernIndex results are shared mutable state for j in %s" % bad)), axioms=False)


# ------------------------------------------------------------------ modes on concrete grids, symbolic coefficients
def real_modes(J, N, norm="noll"):
    zm, _ = _zm()
    return zm.zernikeArray(J, N, norm=norm)


def _absm(j):
    """|m| of Noll index j, written independently of the library (n from the triangular numbers, position k in the row)"""
    n = 0
    while (n + 1) * (n + 2) // 2 < j:
        n += 1
    k = j - n * (n + 1) // 2 - 1
    return (n % 2) + 2 * ((k + ((n + 1) % 2)) // 2)


def _lst(nmodes):
    """index list for zernikeArray(list): out of order, then every index grouped by |m| (neighbours with equal |m| and
    different radial order, e.g. 4, 11), then the same backwards"""
    if nmodes < 3:
        return [1]
    g = sorted(range(1, nmodes + 1), key=lambda j: (_absm(j), j))
    return [nmodes, 1, 3] + g + g[::-1]


def case_modes(ctx, N, nmodes):
    zm, pupil = _zm()
    St.conc_trig_float = True
    St.pow_mode = "float"
    ctx.encoded(zm.zernikeArray, zm.zernike_noll, zm.zernike_nm, zm.zernikeRadialFunc, zm.phaseFromZernikes)
    ctx.bounds.update(N=N, modes=nmodes, coefficients="symbolic")
    ctx.assume("concrete trigonometric / irrational values evaluated in floating point, as the code itself does (grid is concrete)")
    cs = symarr("c", (nmodes,))
    ctx.fallback = lambda m: replay_modes(N, nmodes, m(cs))
    with npx.symbolic(zm, pupil):
        Zs = numpy.asarray(zm.zernikeArray(nmodes, N), dtype=object)
        lst = _lst(nmodes)
        Zl = numpy.asarray(zm.zernikeArray(lst, N), dtype=object)
        Zp = numpy.asarray(zm.zernikeArray(nmodes, N, norm="p2v"), dtype=object)
        Zr = numpy.asarray(zm.zernikeArray(nmodes, N, norm="rms"), dtype=object)
    ctx.paths += 1
    rp = lambda m: replay_modes(N, nmodes, m(cs))
    ctx.fallback = rp
    want = numpy.zeros((N, N), dtype=object)
    for k in range(nmodes):
        want = want + Zs[k] * cs[k]

    # the coefficient vector is symbolic: any decision the code takes on coefficient VALUES (e.g. trimming zeros) forks
    def go():
        with npx.symbolic(zm, pupil):
            return numpy.asarray(zm.phaseFromZernikes(cs, N), dtype=object)
    paths, ex = core.run_paths(go, [], max_paths=200)
    ctx.explored(ex, len(paths))
    for pi, pth in enumerate(paths):
        if pth.exc is not None:
            ctx.prove("path%d: phaseFromZernikes raises %s" % (pi, type(pth.exc).__name__), pth.pc, z3.BoolVal(False), replay=rp, axioms=False)
            continue
        ctx.prove("path%d: phaseFromZernikes(c) = sum_k c_k Z_k for symbolic coefficients" % pi, pth.pc, all_eq(pth.out, want), replay=rp)
    # rotated modes: list form = slices of the count form for a non-zero rotation too
    for rot in (0.3,):
        with npx.symbolic(zm, pupil):
            Zrc = numpy.asarray(zm.zernikeArray(nmodes, N, rot=rot), dtype=object)
            Zrl = numpy.asarray(zm.zernikeArray(lst, N, rot=rot), dtype=object)
            Zr1 = [numpy.asarray(zm.zernike_noll(j, N, rot=rot), dtype=object) for j in lst]
        ctx.prove("rot=%s: zernikeArray(list) = slices of zernikeArray(count) = zernike_noll(j)" % rot, [],
                  z3.And(all_eq(Zrl, numpy.array([Zrc[j - 1] for j in lst], dtype=object)), all_eq(Zrl, numpy.array(Zr1, dtype=object))),
                  replay=lambda m, rot=rot: replay_rot(N, nmodes, lst, rot))
        if nmodes >= 3:
            ctx.prove("rot=%s: rotation changes the m != 0 modes (guard)" % rot, [], all_eq(Zrc[1], Zs[1]), expect="sat", kind="sensitivity", axioms=False)
    ctx.prove("zernikeArray(list) = the matching slices of zernikeArray(count)", [], all_eq(Zl, numpy.array([Zs[j - 1] for j in lst], dtype=object)), replay=rp)
    # vanish outside the inscribed pupil
    outside = []
    for i in range(N):
        for j in range(N):
            x = (j - N / 2. + 0.5) / (N / 2.)
            y = (i - N / 2. + 0.5) / (N / 2.)
            if x * x + y * y > 1.0 + 1e-12:
                outside.append((i, j))
    g = []
    for k in range(nmodes):
        for (i, j) in outside:
            g += eqs(Zs[k][i, j], Sym(0))
    ctx.prove("modes vanish outside the inscribed pupil", [], conj(g), replay=rp)
    # normalisations: p2v -> max-min = 1, rms -> mean square over the pupil = 1 (exact term comparison on the concrete grid)
    tol = Fr(1, 10 ** 9)
    g = []
    for k in range(nmodes):
        vals = [Sym.lift(e) for e in Zp[k].flat]
        if all(v.isconc() for v in vals):
            rng_ = max(v.re for v in vals) - min(v.re for v in vals)
            g.append(z3.BoolVal(abs(rng_ - 1) <= tol) if k > 0 or rng_ != 0 else z3.BoolVal(True))
    if g:
        ctx.prove("p2v normalisation: max - min = 1 for every non-piston mode", [], conj(g[1:]) if len(g) > 1 else z3.BoolVal(True), replay=rp, axioms=False)
    with npx.symbolic(zm, pupil):
        circ = numpy.asarray(pupil.circle(N / 2., N), dtype=object)
    npix = sum(Sym.lift(e).re for e in circ.flat)
    g = []
    for k in range(nmodes):
        ms = sum((Sym.lift(e).re) ** 2 for e in Zr[k].flat) / npix
        g.append(z3.BoolVal(abs(ms - 1) <= tol))
    ctx.prove("rms normalisation: mean square over the pupil = 1", [], conj(g), replay=rp, axioms=False)
    ctx.validate("zernikeArray", evaluate(Zs, {}), lambda: zm.zernikeArray(nmodes, N), tol=1e-9)


def replay_rot(N, nmodes, lst, rot):
    zm, _ = _zm()
    Zc = zm.zernikeArray(nmodes, N, rot=rot)
    Zl = zm.zernikeArray(list(lst), N, rot=rot)
    Z1 = numpy.array([zm.zernike_noll(j, N, rot=rot) for j in lst])
    bad = not numpy.allclose(Zl, Zc[[j - 1 for j in lst]], atol=1e-12) or not numpy.allclose(Zl, Z1, atol=1e-12)
    return bool(bad), dict(what="rot=%s: zernikeArray(list) differs from the slices of zernikeArray(count) / zernike_noll" % rot, N=N, modes=nmodes)


def replay_modes(N, nmodes, coeffs):
    zm, _ = _zm()
    try:
        Zs = zm.zernikeArray(nmodes, N)
        c = numpy.asarray(coeffs, dtype=float)
        ph = zm.phaseFromZernikes(list(c), N)
    except Exception as e:
        return True, dict(what="mode generation raises %s: %s" % (type(e).__name__, e))
    want = (Zs * c[:, None, None]).sum(0)
    lst = _lst(nmodes)
    Zl = zm.zernikeArray(lst, N)
    bad = not numpy.allclose(ph, want, atol=1e-9) or not numpy.allclose(Zl, Zs[[j - 1 for j in lst]], atol=1e-12)
    Zp = zm.zernikeArray(nmodes, N, norm="p2v")
    Zr = zm.zernikeArray(nmodes, N, norm="rms")
    p2v = [float(Zp[k].max() - Zp[k].min()) for k in range(1, nmodes)]
    from aotools.functions.pupil import circle
    rms = [float(numpy.sum(Zr[k] ** 2) / numpy.sum(circle(N / 2., N))) for k in range(nmodes)]
    bad = bad or any(abs(v - 1) > 1e-9 for v in p2v) or any(abs(v - 1) > 1e-9 for v in rms)
    return bool(bad), dict(what="phase / list / normalisation contract of the Zernike mode generators", N=N, modes=nmodes, p2v=p2v, rms=rms)


# ------------------------------------------------------------------ gradient matrices: polynomial identity in x, y
def poly_mul(a, b):
    out = {}
    for (i, j), u in a.items():
        for (k, l), v in b.items():
            out[(i + k, j + l)] = out.get((i + k, j + l), 0) + u * v
    return {k: v for k, v in out.items() if v != 0}


def poly_add(a, b, s=1):
    out = dict(a)
    for k, v in b.items():
        out[k] = out.get(k, 0) + s * v
    return {k: v for k, v in out.items() if v != 0}


def cart_poly(n, m):
    """un-normalised Zernike polynomial R_n^|m|(r) cos/sin(|m| theta) in Cartesian form, exact rational coefficients"""
    am = abs(m)
    re, im = {(0, 0): Fr(1)}, {}
    for _ in range(am):
        re, im = poly_add(poly_mul(re, {(1, 0): Fr(1)}), poly_mul(im, {(0, 1): Fr(1)}), -1), poly_add(poly_mul(re, {(0, 1): Fr(1)}), poly_mul(im, {(1, 0): Fr(1)}))
    ang = re if m >= 0 else im
    rho = {(2, 0): Fr(1), (0, 2): Fr(1)}
    Q = {}
    for s in range((n - am) // 2 + 1):
        c = Fr((-1) ** s * math.factorial(n - s), math.factorial(s) * math.factorial((n + am) // 2 - s) * math.factorial((n - am) // 2 - s))
        t = {(0, 0): c}
        for _ in range((n - am) // 2 - s):
            t = poly_mul(t, rho)
        Q = poly_add(Q, t)
    return poly_mul(ang, Q)


def poly_diff(p, axis):
    out = {}
    for (i, j), v in p.items():
        if axis == 0 and i > 0:
            out[(i - 1, j)] = out.get((i - 1, j), 0) + v * i
        if axis == 1 and j > 0:
            out[(i, j - 1)] = out.get((i, j - 1), 0) + v * j
    return out


def poly_term(p, x, y):
    acc = Sym(0)
    for (i, j), v in sorted(p.items()):
        acc = acc + (x ** i) * (y ** j) * v
    return acc


def norm_factor(n, m):
    f = core.sym_sqrt(Sym(n + 1))
    if m != 0:
        f = f * core.sym_sqrt(Sym(2))
    return f


def replay_gamma(nzrad, i, axis):
    zm, _ = _zm()
    G = zm.makegammas(nzrad)
    nz = G.shape[1]
    modes = [noll_oracle(j + 1) for j in range(nz)]
    rng = rng_for("gamma")
    worst = 0.0
    for _ in range(6):
        r = 0.1 + 0.8 * rng.random()
        t = 6.28 * rng.random()
        x, y = r * math.cos(t), r * math.sin(t)

        def val(p):
            return sum(float(v) * x ** a * y ** b for (a, b), v in p.items())

        def nf(n, m):
            return math.sqrt(n + 1) * (math.sqrt(2) if m else 1.0)
        n, m = modes[i]
        lhs = nf(n, m) * val(poly_diff(cart_poly(n, m), axis))
        rhs = sum(float(G[axis][i, j]) * nf(*modes[j]) * val(cart_poly(*modes[j])) for j in range(nz))
        worst = max(worst, abs(lhs - rhs))
    return worst > 1e-4, dict(what="gamma matrix does not reproduce d/d%s of Noll mode %d" % ("xy"[axis], i + 1), nzrad=nzrad, max_abs_err=worst)


def case_gamma(ctx, nzrad):
    zm, _ = _zm()
    ctx.encoded(zm.makegammas, zm.zernIndex)
    ctx.bounds.update(radial_orders=nzrad, point="(x, y) symbolic real")
    ctx.assume("float32 storage of the gamma matrices is outside (REAL mode: entries are exact algebraic numbers sqrt((n+1)(n'+1)) [* sqrt 2])")
    with npx.symbolic(zm):
        G = numpy.asarray(zm.makegammas(nzrad), dtype=object)
    ctx.paths += 1
    nz = G.shape[1]
    want_nz = (nzrad + 1) * (nzrad + 2) // 2
    ctx.prove("gamma matrices are 2 x %d x %d" % (want_nz, want_nz), [], z3.BoolVal(G.shape == (2, want_nz, want_nz)), replay=lambda m: replay_gamma(nzrad, 0, 0), axioms=False)
    modes = [noll_oracle(j + 1) for j in range(nz)]
    x, y = var("x"), var("y")
    Zt = [norm_factor(n, m) * poly_term(cart_poly(n, m), x, y) for (n, m) in modes]
    for i in range(nz):
        n, m = modes[i]
        for axis in (0, 1):
            lhs = norm_factor(n, m) * poly_term(poly_diff(cart_poly(n, m), axis), x, y)
            rhs = Sym(0)
            for j in range(nz):
                gij = Sym.lift(G[axis][i, j])
                if gij.isconc() and gij.re == 0:
                    continue
                rhs = rhs + gij * Zt[j]
            ctx.prove("d/d%s of Noll mode %d (n=%d, m=%d) = sum_j gamma[i,j] Z_j for every (x, y)" % ("xy"[axis], i + 1, n, m), [], conj(eqs(lhs, rhs)),
                      replay=lambda mm, i=i, axis=axis: replay_gamma(nzrad, i, axis), timeout_ms=60000)


# ------------------------------------------------------------------ radial polynomials of high order
def radial_coeffs(n, m):
    return [(n - 2 * s_, Fr((-1) ** s_ * math.factorial(n - s_),
                            math.factorial(s_) * math.factorial((n + m) // 2 - s_) * math.factorial((n - m) // 2 - s_)))
            for s_ in range((n - m) // 2 + 1)]


def replay_radial(n, m, r):
    zm, _ = _zm()
    r = min(max(float(r), 0.0), 1.0)
    try:
        got = float(zm.zernikeRadialFunc(n, m, numpy.array([r]))[0])
    except Exception as e:
        return True, dict(what="zernikeRadialFunc(%d, %d, r) raises %s: %s" % (n, m, type(e).__name__, e))
    rr = Fr(r)
    terms = [c * rr ** k for k, c in radial_coeffs(n, m)]
    want = float(sum(terms))
    scale = float(sum(abs(t) for t in terms))
    bad = not (abs(got - want) <= 1e-9 * scale + 1e-300)
    return bool(bad), dict(what="zernikeRadialFunc(%d, %d, %r) = %r, the radial polynomial is %r" % (n, m, r, got, want))


def case_radial(ctx, nlo, nhi):
    zm, _ = _zm()
    ctx.encoded(zm.zernikeRadialFunc)
    ctx.bounds.update(radial_orders=[nlo, nhi], azimuthal="every m with n-m even", r="symbolic real in [0, 1] (array of one sample)")
    r = var("r")
    pre = [z(r.re) >= 0, z(r.re) <= 1]
    ra = numpy.empty(1, dtype=object)
    ra[0] = r
    ra = ra.view(core.SA)
    for n in range(nlo, nhi + 1):
        for m in range(n % 2, n + 1, 2):
            with npx.symbolic(zm):
                got = numpy.asarray(zm.zernikeRadialFunc(n, m, ra), dtype=object)
            ctx.paths += 1
            want = Sym(0)
            for k, c in radial_coeffs(n, m):
                want = want + (r ** k) * c
            ctx.prove("R_%d^%d(r) = sum_s (-1)^s (n-s)! / (s! ((n+m)/2-s)! ((n-m)/2-s)!) r^(n-2s)" % (n, m), pre,
                      conj(eqs(got[0], want)), replay=(lambda mdl, n=n, m=m: replay_radial(n, m, mdl(r))), timeout_ms=60000, axioms=False)
    ctx.validate("zernikeRadialFunc", [float(sum(c * Fr(3, 8) ** k for k, c in radial_coeffs(nhi, nhi % 2)))],
                 lambda: [float(zm.zernikeRadialFunc(nhi, nhi % 2, numpy.array([0.375]))[0])], tol=1e-6)


def build_cases(tier):
    cases = []
    chunks = [(1, 60), (61, 150), (151, 300)] if tier == "quick" else [(1, 60), (61, 150), (151, 300), (301, 500), (501, 750), (751, 1000), (1001, 1300), (1301, 1600), (1601, 2000)]
    for lo, hi in chunks:
        cases.append(("index/j=%d..%d" % (lo, hi), case_index, dict(lo=lo, hi=hi)))
    cases.append(("index/fresh-results", case_index_alias, {}))
    for N, nm in ([(4, 6), (5, 11)] if tier == "quick" else [(4, 6), (5, 10), (8, 15), (9, 21), (16, 10)]):
        cases.append(("modes/N=%d/modes=%d" % (N, nm), case_modes, dict(N=N, nmodes=nm)))
    for lo, hi in ([(0, 12), (13, 20), (21, 26), (27, 30)] if tier == "quick" else
                   [(0, 12), (13, 20), (21, 26), (27, 30), (31, 36), (37, 42), (43, 48), (49, 54), (55, 60)]):
        cases.append(("radial/n=%d..%d" % (lo, hi), case_radial, dict(nlo=lo, nhi=hi)))
    for nz in ([2, 3, 4] if tier == "quick" else [2, 3, 4, 5]):
        cases.append(("gamma/nzrad=%d" % nz, case_gamma, dict(nzrad=nz)))
    return cases


if __name__ == "__main__":
    sys.exit(harness.main("C12", build_cases, FILES))
