"""C18  Profile compression conserves the turbulence it compresses (GCTM is outside: L-BFGS-B).

Real functions executed symbolically (all feasible paths): profile_compression.equivalent_layers on symbolic
profiles (strictly increasing heights, positive strengths and winds), optimal_grouping with _Gjit's Python
source, _optGroupingMinimization, _vicinity, _convert_splits_to_groups, _G and the global-RNG restart modelled as
ANY sorted distinct split set (forked).  Decided (REAL): exactly L layers, total Cn2, 5/3 height moment and 5/3
wind moment conserved, every input layer in exactly one slab; optimal grouping: L groups partition all layers
(total Cn2), heights are input heights in increasing order, cost no worse than the equal split.
Decided (Float64, z3 FloatingPoint): the slab-edge kernel as the source computes it - for the kernel found in the
source (numpy.arange(hmin, hmax, (hmax-hmin)/L)) the number of edges is L for every double range; for
numpy.linspace(..., L, endpoint=False) it is L by construction.
NOT claimed: GCTM (scipy.optimize.minimize).
"""
import itertools
import sys

from .common import *  # noqa: F401,F403
from .common import numpy, z3, core, npx, harness, Sym, St, Fr, z, var, symarr, eqs, conj, all_eq

FILES = ["aotools/turbulence/profile_compression.py"]


def _pc():
    import aotools.turbulence.profile_compression as pc
    return pc


def profile(N, wind=True):
    h, p, w = symarr("h", (N,)), symarr("p", (N,)), symarr("w", (N,))
    pre = [z(h[0].re) >= 0] + [z(h[i + 1].re) > z(h[i].re) for i in range(N - 1)] + [z(e.re) > 0 for e in p.flat] + [z(e.re) > 0 for e in w.flat]
    return h, p, (w if wind else None), pre


def mom(p, x, e=Fr(5, 3)):
    acc = Sym(0)
    for a, b in zip(numpy.asarray(p, dtype=object).flat, numpy.asarray(x, dtype=object).flat):
        b = Sym.lift(b)
        if b.isconc() and core._exact_root(b.re, e.denominator) is None:
            # a concrete irrational power is the double the code itself computes (numpy float power)
            acc = acc + Sym.lift(a) * Sym(float(b.re) ** float(e))
        else:
            acc = acc + Sym.lift(a) * core.rat_pow(b, e)
    return acc


# ------------------------------------------------------------------ replays
def conc_profile(m, h, p, w):
    hv = numpy.sort(numpy.abs(numpy.asarray(m(h), dtype=float)))
    for i in range(1, len(hv)):
        if hv[i] <= hv[i - 1]:
            hv[i] = hv[i - 1] + 1.0
    pv = numpy.abs(numpy.asarray(m(p), dtype=float))      # the witness's strengths as they are (physical Cn2 dh values are ~1e-15)
    pv[pv == 0] = 1e-3
    wv = (numpy.abs(numpy.asarray(m(w), dtype=float)) + 1e-3) if w is not None else None
    return hv, pv, wv


def replay_el(hv, pv, wv, L):
    pc = _pc()
    out = pc.equivalent_layers(hv.copy(), pv.copy(), L, w=None if wv is None else wv.copy())
    h_el, c_el = out[0], out[1]
    notes = []
    bad = False
    if len(h_el) != L or len(c_el) != L:
        bad = True
        notes.append("not L layers")
    tot = abs(numpy.nansum(c_el) - pv.sum()) / pv.sum()
    if not numpy.isfinite(tot) or tot > 1e-9:
        bad = True
        notes.append("total Cn2 changes by %.3g (a layer is dropped?)" % tot)
    ok = c_el > 0
    m1 = abs(numpy.sum(c_el[ok] * h_el[ok] ** (5. / 3)) - numpy.sum(pv * hv ** (5. / 3))) / max(numpy.sum(pv * hv ** (5. / 3)), 1e-300)
    if not numpy.isfinite(m1) or m1 > 1e-9:
        bad = True
        notes.append("5/3 height moment changes by %.3g" % m1)
    if wv is not None:
        w_el = out[2]
        wv = numpy.asarray(wv, dtype=float)
        m2 = abs(numpy.sum(c_el[ok] * numpy.asarray(w_el, dtype=float)[ok] ** (5. / 3)) - numpy.sum(pv * wv ** (5. / 3))) / numpy.sum(pv * wv ** (5. / 3))
        if not numpy.isfinite(m2) or m2 > 1e-9:
            bad = True
            notes.append("5/3 wind moment changes by %.3g" % m2)
    return bad, dict(what="; ".join(notes) or "conserved", heights=hv, cn2=pv, wind=wv, L=L, out_h=h_el, out_cn2=c_el)


# ------------------------------------------------------------------ equivalent layers (REAL)
def case_el(ctx, N, L, wind, int_wind=None):
    pc = _pc()
    h, p, w, pre = profile(N, wind)
    if int_wind is not None:
        # wind given as an integer array (whole m/s): still a legal profile
        w = numpy.array(int_wind, dtype=int)
        pre = pre[:len(pre) - N]
    ctx.encoded(pc.equivalent_layers)
    ctx.bounds.update(N=N, L=L, wind=wind if int_wind is None else "concrete integer array %s" % (list(int_wind),),
                      profile="strictly increasing symbolic heights >= 0, positive strengths / winds")

    def go():
        with npx.symbolic(pc):
            return pc.equivalent_layers(h, p, L, w=w)
    paths, ex = core.run_paths(go, pre, max_paths=3000)
    ctx.explored(ex, len(paths))
    def rp(m):
        # the powers are atoms in the query, so the model's profile may be degenerate (e.g. uniform wind):
        # replay the model's profile and two generic seeded ones with the same slab occupancy
        last = None
        if int_wind is not None:
            hv, pv, _ = conc_profile(m, h, p, None)
            return replay_el(hv, pv, numpy.array(int_wind, dtype=int), L)
        hv, pv, wv = conc_profile(m, h, p, w)
        cands = [(hv, pv, wv)]
        rng = rng_for("c18el%d%d" % (N, L))
        for _ in range(2):
            cands.append((hv, pv * numpy.array([1 + rng.random() for _ in range(N)]), None if wv is None else numpy.array([3.0 + 20 * rng.random() for _ in range(N)])))
        for c in cands:
            bad, d = replay_el(c[0], c[1], c[2], L)
            last = d
            if bad:
                return True, d
        return False, last
    nonempty = 0
    for pi, pth in enumerate(paths):
        hyp = pre + pth.pc
        if pth.exc is not None:
            if isinstance(pth.exc, ZeroDivisionError):
                ctx.assume("paths on which some equal-thickness slab is empty (0/0 in the slab height) are not examined")
                continue
            ctx.prove("path%d raises %s" % (pi, type(pth.exc).__name__), hyp, z3.BoolVal(False), replay=rp, axioms=False)
            continue
        nonempty += 1
        out = pth.out
        h_el, c_el = numpy.asarray(out[0], dtype=object), numpy.asarray(out[1], dtype=object)
        ctx.prove("path%d: exactly L layers" % pi, hyp, z3.BoolVal(len(h_el) == L and len(c_el) == L and len(out) == (3 if wind else 2)), replay=rp, axioms=False)
        tot = Sym(0)
        for e in c_el:
            tot = tot + e
        tin = Sym(0)
        for e in p:
            tin = tin + e
        ctx.prove("path%d: total Cn2 conserved (no layer dropped)" % pi, hyp, conj(eqs(tot, tin)), replay=rp, timeout_ms=30000)
        ctx.prove("path%d: strengths non-negative" % pi, hyp, conj([z(Sym.lift(e).re) >= 0 for e in c_el]), replay=rp, timeout_ms=30000)
        # the powers h_i^(5/3) are atoms here: the identity needs no fact about them (only that slab strengths are > 0)
        ctx.prove("path%d: 5/3 height moment conserved" % pi, hyp, conj(eqs(mom(c_el, h_el), mom(p, h))), replay=rp, timeout_ms=60000, axioms=False)
        if wind:
            w_el = numpy.asarray(out[2], dtype=object)
            ctx.prove("path%d: 5/3 wind moment conserved" % pi, hyp, conj(eqs(mom(c_el, w_el), mom(p, w))), replay=rp, timeout_ms=60000, axioms=False)
    ctx.prove("some path has all slabs non-empty", [], z3.BoolVal(nonempty > 0), axioms=False)
    ctx.prove("guard: preconditions satisfiable", pre, z3.BoolVal(False), expect="sat", kind="vacuity", axioms=False)


# ------------------------------------------------------------------ slab-edge kernel in Float64
class Recorder:
    def __init__(self, proxy):
        self.p = proxy
        self.calls = []

    def __getattr__(self, k):
        return getattr(self.p, k)

    def arange(self, *a, **k):
        self.calls.append(("arange", a))
        return self.p.arange(*a, **k)

    def linspace(self, start, stop, num=50, endpoint=True, **k):
        self.calls.append(("linspace", (start, stop, num, endpoint)))
        return self.p.linspace(start, stop, num, endpoint, **k)


def replay_edges(L, rng_):
    """top layer must land in slab L: heights spanning `rng_` in N = L+1 regular layers"""
    pc = _pc()
    hv = numpy.linspace(0.0, float(rng_), 2 * L + 1)
    pv = numpy.ones(len(hv))
    h_el, c_el = pc.equivalent_layers(hv.copy(), pv.copy(), L)
    tot = float(numpy.nansum(c_el))
    bad = abs(tot - pv.sum()) > 1e-9
    return bad, dict(what="equivalent_layers drops turbulence: total Cn2 %.6g of %.6g (range %r, L=%d)" % (tot, pv.sum(), rng_, L), heights=hv, out_cn2=c_el)


def case_edges(ctx, L, timeout_s):
    pc = _pc()
    h, p, w, pre = profile(L + 1, False)
    ctx.encoded(pc.equivalent_layers)
    ctx.bounds.update(L=L, range="every double hmax-hmin in (1, 1e5) with hmin = 0", arithmetic="IEEE-754 binary64, round to nearest even")
    rec = Recorder(npx.NP())

    def go():
        rec.calls.clear()
        with npx.symbolic(pc, proxy=rec):
            return pc.equivalent_layers(h, p, L)
    try:
        core.run_paths(go, pre, max_paths=50)
    except RuntimeError:
        pass
    ctx.paths += 1
    kinds = [c for c in rec.calls if c[0] in ("arange", "linspace")]
    if kinds and kinds[0][0] == "linspace" and int(kinds[0][1][2]) == L and kinds[0][1][3] is False:
        ctx.prove("slab edges: numpy.linspace(hmin, hmax, L, endpoint=False) has exactly L edges by construction", [], z3.BoolVal(True), axioms=False)
        return
    if not kinds or kinds[0][0] != "arange" or len(kinds[0][1]) != 3:
        ctx.inconclusive.append("edges-fp/L=%d: slab-edge kernel not recognised (%s)" % (L, kinds[:1]))
        return
    # Float64 model of: d = hmax - hmin; step = d / L; n = ceil((hmax - hmin) / step)  (numpy.arange length)
    F = z3.Float64()
    rm = z3.RNE()
    d = z3.FP("range", F)
    step = z3.fpDiv(rm, d, z3.FPVal(float(L), F))
    q = z3.fpDiv(rm, d, step)
    s = z3.Solver()
    s.set("timeout", int(timeout_s * 1000))
    s.add(z3.fpGT(d, z3.FPVal(1.0, F)), z3.fpLT(d, z3.FPVal(1e5, F)))
    s.add(z3.fpGT(q, z3.FPVal(float(L), F)))          # more than L edges: the top layer falls outside every slab
    import time
    t0 = time.time()
    r = s.check()
    dt = time.time() - t0
    ctx.solver_s += dt
    ctx.queries += 1
    name = "edges-fp/L=%d/arange(hmin, hmax, (hmax-hmin)/L) has exactly L edges for every double range" % L
    rec_ = dict(name=name, kind="property", expect="unsat", verdict=str(r), s=round(dt, 3))
    ctx.records.append(rec_)
    ctx.nontrivial.add("fp-edges-%d" % L)
    if r == z3.unknown:
        ctx.inconclusive.append(name)
    elif r == z3.sat:
        mval = s.model()[d]
        rng_ = float(eval(str(z3.simplify(z3.fpToReal(mval)).as_fraction()))) if False else _fp_to_float(mval)
        rec_["witness"] = dict(range=rng_)
        ok, detail = replay_edges(L, rng_)
        rec_["replay"] = harness._jsonable(detail)
        if ok:
            ctx.violations.append(dict(obligation=name, witness=dict(range=rng_, L=L), replay=harness._jsonable(detail)))
        else:
            ctx.harness_errors.append("%s: Float64 witness %r did not reproduce: %s" % (name, rng_, detail))


def _fp_to_float(v):
    import struct
    bv = z3.simplify(z3.fpToIEEEBV(v))
    return struct.unpack(">d", struct.pack(">Q", bv.as_long()))[0]


# ------------------------------------------------------------------ optimal grouping
def contiguous_partitions(N, L):
    for cuts in itertools.combinations(range(1, N), L - 1):
        b = [0] + list(cuts) + [N]
        yield [list(range(b[k], b[k + 1])) for k in range(L)]


def replay_og(hv, pv, L, R, history=None):
    """the witness profile on the real code: first in a fresh process state, then (the symbolic run calls
    optimal_grouping once per path and profile, i.e. it explores call histories) after earlier calls with other
    profiles on the same height grid"""
    pc = _pc()
    if history:
        for qv in history:
            try:
                numpy.random.seed(1)
                pc.optimal_grouping(R, L, hv.copy(), numpy.asarray(qv, dtype=float))
            except Exception:
                pass
        bad, detail = _og_once(hv, pv, L, R)
        detail["history"] = "after optimal_grouping with strengths %s on the same heights" % ([list(map(float, qv)) for qv in history],)
        return bad, detail
    bad, detail = _og_once(hv, pv, L, R)
    if bad:
        return bad, detail
    n = len(pv)
    others = [pv[::-1].copy(), numpy.linspace(1.0, 3.0, n) * pv.mean(), numpy.where(numpy.arange(n) == n - 1, 50.0, 0.01) * pv.mean(),
              numpy.where(numpy.arange(n) == 0, 50.0, 0.01) * pv.mean()]
    for q in others:
        try:
            numpy.random.seed(1)
            pc.optimal_grouping(R, L, hv.copy(), numpy.asarray(q, dtype=float))
        except Exception:
            pass
        bad, detail = _og_once(hv, pv, L, R)
        if bad:
            detail["history"] = "after earlier optimal_grouping calls with other strength profiles on the same heights"
            return bad, detail
    return bad, detail


def _og_once(hv, pv, L, R):
    pc = _pc()
    notes = []
    bad = False
    for seed in range(3):
        numpy.random.seed(seed)
        try:
            ho, co = pc.optimal_grouping(R, L, hv.copy(), pv.copy())
        except Exception as e:
            return True, dict(what="optimal_grouping raises %s: %s" % (type(e).__name__, e), heights=hv, cn2=pv, L=L)
        ho, co = numpy.asarray(ho, dtype=float), numpy.asarray(co, dtype=float)
        if len(ho) != L or len(co) != L:
            bad = True
            notes.append("returns %d layers instead of %d" % (len(ho), L))
            break
        if abs(co.sum() - pv.sum()) > 1e-9 * pv.sum():
            bad = True
            notes.append("total Cn2 not conserved")
        if any(x not in hv for x in ho) or any(numpy.diff(ho) <= 0):
            bad = True
            notes.append("heights are not input heights in increasing order")
        # cost of the returned representation vs the equal split
        part = None
        for P_ in contiguous_partitions(len(hv), L):
            if numpy.allclose([pv[g].sum() for g in P_], co, rtol=1e-12, atol=0):
                part = P_
                break
        if part is not None:
            cost = sum(float(numpy.sum(pv[g] * numpy.abs(hv[g] - ho[k]))) for k, g in enumerate(part))
            eq = numpy.linspace(0, len(hv), L + 1, dtype=int)
            geq = 0.0
            for k in range(L):
                g = list(range(eq[k], eq[k + 1])) if k == 0 else list(range(eq[k] + 1, eq[k + 1] + 1)) if False else list(range(eq[k], eq[k + 1]))
                if g:
                    geq += min(float(numpy.sum(pv[g] * numpy.abs(hv[g] - hv[i]))) for i in g)
            if cost > geq * (1 + 1e-9) + 1e-15:
                bad = True
                notes.append("cost %.6g worse than the equal split %.6g" % (cost, geq))
    return bad, dict(what="; ".join(notes) or "ok", heights=hv, cn2=pv, L=L)


def case_og(ctx, N, L, R, heights=None, earlier=False):
    pc = _pc()
    h, p, w, pre = profile(N, False)
    if heights is not None:
        h = core.obj(numpy.array([Sym(Fr(x)) for x in heights], dtype=object))
        pre = [z(e.re) > 0 for e in p.flat]
    q = None
    if earlier:
        # an earlier call with ANOTHER strength profile on the same heights (history): nothing may carry over
        q = core.obj(numpy.array([var("q%d" % i) for i in range(N)], dtype=object))
        pre = pre + [z(e.re) > 0 for e in q.flat]
        ctx.bounds.update(history="optimal_grouping(R, L, h, q) with an independent symbolic profile q, then the call under test")
    ctx.encoded(pc.optimal_grouping, pc._optGroupingMinimization, pc._vicinity, pc._convert_splits_to_groups, pc._G, "aotools.turbulence.profile_compression._Gjit (py_func)", pc._random_grouping)
    ctx.bounds.update(N=N, L=L, random_restarts=R, rng="numpy.random.choice returns ANY size-(L-1) subset of its options (forked)",
                      heights="symbolic strictly increasing" if heights is None else "concrete irregular %s (strengths symbolic > 0)" % (list(heights),))
    ctx.assume("numba compiles _Gjit faithfully (its Python source is executed); global RNG = arbitrary sorted distinct splits")
    proxy = npx.NP()

    def choice(a, size=None, replace=True):
        a = [int(x) for x in numpy.asarray(a)]
        size = int(size)
        combos = list(itertools.combinations(a, size))
        if not combos:
            raise ValueError("Cannot take a larger sample than population when 'replace=False'")
        k = St.explorer.choose_free(len(combos))
        return numpy.array(combos[k], dtype=int)
    proxy.random.choice_hook = choice

    def go():
        with npx.symbolic(pc, proxy=proxy):
            if q is not None:
                pc.optimal_grouping(R, L, h, q)
            return pc.optimal_grouping(R, L, h, p)
    paths, ex = core.run_paths(go, pre, max_paths=6000)
    ctx.explored(ex, len(paths))

    def hist(m):
        return None if q is None else [numpy.abs(numpy.asarray(m(q), dtype=float)) + 1e-3]
    if heights is None:
        rp = lambda m: replay_og(*conc_profile(m, h, p, None)[:2], L, R, hist(m))
    else:
        rp = lambda m: replay_og(numpy.array(heights, dtype=float), numpy.abs(numpy.asarray(m(p), dtype=float)) + 1e-3, L, R, hist(m))
    tin = Sym(0)
    for e in p:
        tin = tin + e
    eq = numpy.linspace(0, N, L + 1, dtype=int)
    eq_groups = [list(range(eq[k], eq[k + 1])) for k in range(L)]
    for pi, pth in enumerate(paths):
        hyp = pre + pth.pc
        if pth.exc is not None:
            if isinstance(pth.exc, ValueError) and "larger sample" in str(pth.exc):
                ctx.assume("restart sampling that the real numpy.random.choice rejects (population smaller than L-1) is not examined")
                continue
            ctx.prove("path%d raises %s: %s" % (pi, type(pth.exc).__name__, str(pth.exc)[:60]), hyp, z3.BoolVal(False), replay=rp, axioms=False)
            continue
        ho, co = numpy.asarray(pth.out[0], dtype=object), numpy.asarray(pth.out[1], dtype=object)
        if len(ho) != L or len(co) != L:
            ctx.prove("path%d: exactly L layers (got %d)" % (pi, len(co)), hyp, z3.BoolVal(False), replay=rp, axioms=False)
            continue
        tot = Sym(0)
        for e in co:
            tot = tot + e
        ctx.prove("path%d: exactly L layers, total Cn2 conserved" % pi, hyp, conj(eqs(tot, tin)), replay=rp, timeout_ms=30000)
        # heights are input heights, increasing
        g = []
        for k in range(L):
            g.append(z3.Or(*[z(Sym.lift(ho[k]).re) == z(h[i].re) for i in range(N)]))
            if k:
                g.append(z(Sym.lift(ho[k]).re) > z(Sym.lift(ho[k - 1]).re))
        ctx.prove("path%d: heights are input heights in increasing order" % pi, hyp, z3.And(*g), replay=rp, timeout_ms=30000)
        # identify the grouping (contiguous partition whose strength sums are the returned ones) and compare costs
        part = None
        for P_ in contiguous_partitions(N, L):
            ok = True
            for k, grp in enumerate(P_):
                s_ = Sym(0)
                for i in grp:
                    s_ = s_ + p[i]
                if not z3.simplify(z(s_.re) - z(Sym.lift(co[k]).re) == 0, som=True).eq(z3.BoolVal(True)):
                    if not ctx.lemma(hyp, z(s_.re) == z(Sym.lift(co[k]).re)) or not _same_vars(s_, co[k]):
                        ok = False
                        break
            if ok:
                part = P_
                break
        if part is None:
            ctx.prove("path%d: returned strengths are the sums of a contiguous partition of the input layers" % pi, hyp, z3.BoolVal(False), replay=rp, axioms=False)
            continue
        cost = Sym(0)
        for k, grp in enumerate(part):
            for i in grp:
                cost = cost + p[i] * abs(h[i] - ho[k])
        alts = []
        for reps in itertools.product(*eq_groups):
            c = Sym(0)
            for k, grp in enumerate(eq_groups):
                for i in grp:
                    c = c + p[i] * abs(h[i] - h[reps[k]])
            alts.append(z(cost.re) <= z(c.re))
        ctx.prove("path%d: cost of the returned layers is no worse than the equal split" % pi, hyp, z3.And(*alts), replay=rp, timeout_ms=60000)
    ctx.prove("guard: preconditions satisfiable", pre, z3.BoolVal(False), expect="sat", kind="vacuity", axioms=False)


def _same_vars(a, b):
    n1, n2 = set(), set()
    core._consts(z(Sym.lift(a).re), n1)
    core._consts(z(Sym.lift(b).re), n2)
    return n1 == n2


# ------------------------------------------------------------------ GCTM: the wrapper around scipy.optimize.minimize
class _MinimizeStub:
    """scipy.optimize.minimize by contract for the WRAPPER: it is handed an objective, a start vector and bounds and
    returns SOME vector within the bounds (fresh symbols >= 0).  Nothing is assumed about optimality."""

    def __init__(self, answer):
        self.answer = answer
        self.calls = []

    def __call__(self, fun, x0, args=(), bounds=None, **kw):
        self.calls.append(dict(fun=fun, x0=x0, args=args, bounds=bounds, kw=kw))
        import scipy.optimize
        return scipy.optimize.OptimizeResult(x=self.answer, success=True, fun=None, nit=0, message="stub")


def _scaled_moments(hh, cc, L, hs, cs):
    out = []
    for i in range(2 * L - 1):
        acc = Sym(0)
        for a, b in zip(hh, cc):
            acc = acc + (Sym.lift(b) / cs) * ((Sym.lift(a) / hs) ** i)
        out.append(acc)
    return out


def replay_gctm(hv, pv, L, hs, cs, xv):
    """the real GCTM with a controlled optimiser that records its arguments and answers xv: is the objective it was
    given, at xv, the moment residual (scaled units) of the layers GCTM then returns?  Then the real optimiser."""
    pc = _pc()
    hv, pv, xv = numpy.asarray(hv, dtype=float), numpy.asarray(pv, dtype=float), numpy.abs(numpy.asarray(xv, dtype=float))
    rec = {}

    def fake(fun, x0, args=(), bounds=None, **kw):
        rec.update(fun=fun, x0=numpy.array(x0, dtype=float), args=args, bounds=bounds)
        import scipy.optimize
        return scipy.optimize.OptimizeResult(x=xv.copy(), success=True, fun=None, nit=0, message="controlled optimiser")
    old = pc.minimize
    pc.minimize = fake
    try:
        h_L, c_L = pc.GCTM(hv.copy(), pv.copy(), L, h_scaling=hs, cn2_scaling=cs)
    except Exception as e:
        return True, dict(what="GCTM raises %s: %s" % (type(e).__name__, e))
    finally:
        pc.minimize = old
    h_L, c_L = numpy.asarray(h_L, dtype=float), numpy.asarray(c_L, dtype=float)
    notes = []
    if len(h_L) != L or len(c_L) != L:
        notes.append("returns %d / %d values instead of L = %d layers" % (len(h_L), len(c_L), L))
    else:
        obj = float(rec["fun"](xv.copy(), *rec["args"]))
        res = 0.0
        for i in range(2 * L - 1):
            res += (float(numpy.sum(c_L / cs * (h_L / hs) ** i)) - float(numpy.sum(pv / cs * (hv / hs) ** i))) ** 2
        if abs(obj - res) > 1e-9 * max(1.0, abs(obj), abs(res)):
            notes.append("objective at the optimiser's answer %.9g != moment residual of the returned layers %.9g" % (obj, res))
        if len(rec["x0"]) != 2 * L or rec["bounds"] is None or len(rec["bounds"]) != 2 * L or any(b[0] != 0 for b in rec["bounds"]):
            notes.append("start vector / non-negativity bounds do not cover 2L variables")
        if numpy.any(c_L < 0):
            notes.append("negative strengths")
    return bool(notes), dict(what="; ".join(notes) or "ok", heights=hv, cn2=pv, L=L, h_scaling=hs, cn2_scaling=cs, optimiser_answer=xv)


def case_gctm(ctx, N, L):
    pc = _pc()
    h, p, w, pre = profile(N, False)
    hs, cs = var("hs"), var("cs")
    X = core.obj(numpy.array([var("x%d" % i) for i in range(2 * L)], dtype=object))
    pre = pre + [z(hs.re) > 0, z(cs.re) > 0] + [z(e.re) >= 0 for e in X.flat]
    ctx.encoded(pc.GCTM, pc._moments, pc._moments_minfunc, pc.equivalent_layers)
    ctx.bounds.update(N=N, L=L, scalings="h_scaling, cn2_scaling symbolic > 0", optimiser="scipy.optimize.minimize replaced by: returns ANY vector within the bounds")
    ctx.assume("scipy.optimize.minimize returns a vector within the bounds it is given; its accuracy (how small the residual gets) is outside")
    stub = _MinimizeStub(X)

    def go():
        del stub.calls[:]
        with npx.symbolic(pc, extra={pc.__name__: {"minimize": stub}}):
            out = pc.GCTM(h, p, L, h_scaling=hs, cn2_scaling=cs)
            call = dict(stub.calls[0]) if stub.calls else None
            obj = call["fun"](X, *call["args"]) if call else None
        return out, call, obj
    paths, ex = core.run_paths(go, pre, max_paths=400)
    ctx.explored(ex, len(paths))
    rp = lambda m: replay_gctm(*conc_profile(m, h, p, None)[:2], L, abs(float(m(hs))) or 1.0, abs(float(m(cs))) or 1.0, [abs(float(m(e))) for e in X.flat])
    ctx.fallback = rp
    done = 0
    for pi, pth in enumerate(paths):
        hyp = pre + pth.pc
        if pth.exc is not None:
            if isinstance(pth.exc, ZeroDivisionError):
                ctx.assume("paths with an empty slab in the starting guess (0/0) are not examined")
                continue
            ctx.prove("path%d raises %s" % (pi, type(pth.exc).__name__), hyp, z3.BoolVal(False), replay=rp, axioms=False)
            continue
        (h_L, c_L), call, obj = pth.out
        h_L, c_L = numpy.asarray(h_L, dtype=object), numpy.asarray(c_L, dtype=object)
        if call is None or h_L.shape != (L,) or c_L.shape != (L,):
            ctx.prove("path%d: the optimiser is called once and exactly L layers are returned" % pi, hyp, z3.BoolVal(False), replay=rp, axioms=False)
            continue
        done += 1
        m_out = _scaled_moments(h_L, c_L, L, hs, cs)
        m_in = _scaled_moments(h, p, L, hs, cs)
        res = Sym(0)
        for a, b in zip(m_out, m_in):
            res = res + (a - b) * (a - b)
        ctx.prove("path%d: the objective the optimiser minimised, at its answer, is the residual of the first 2L-1 (scaled) moments of the RETURNED layers" % pi,
                  hyp, conj(eqs(Sym.lift(obj), res)), replay=rp, timeout_ms=60000)
        x0 = numpy.asarray(call["x0"], dtype=object)
        g = [z3.BoolVal(x0.shape == (2 * L,)), z3.BoolVal(call["bounds"] is not None and len(call["bounds"]) == 2 * L and all(tuple(b) == (0, None) for b in call["bounds"]))]
        ctx.prove("path%d: 2L optimisation variables, each bounded below by 0" % pi, hyp, conj(g), replay=rp, axioms=False)
        ctx.prove("path%d: returned strengths are non-negative" % pi, hyp, conj([z(Sym.lift(e).re) >= 0 for e in c_L]), replay=rp, timeout_ms=30000)
        if x0.shape == (2 * L,):
            # the start is a feasible point whose total strength is the input's (the equivalent-layers compression, scaled)
            tot = Sym(0)
            for e in x0[L:]:
                tot = tot + Sym.lift(e)
            tin = Sym(0)
            for e in p:
                tin = tin + e
            ctx.prove("path%d: the starting guess carries the input's total Cn2 (scaled)" % pi, hyp, conj(eqs(tot * cs, tin)), replay=rp, timeout_ms=30000)
    ctx.prove("guard: preconditions satisfiable", pre, z3.BoolVal(False), expect="sat", kind="vacuity", axioms=False)


def build_cases(tier):
    cases = []
    E = [(3, 1, True), (3, 2, True), (4, 2, True), (4, 3, False), (5, 2, False)]
    if tier == "thorough":
        E += [(5, 3, True), (6, 3, False), (6, 2, True), (5, 4, False)]
    for N, L, wnd in E:
        cases.append(("equivalent_layers/N=%d/L=%d/%s" % (N, L, "wind" if wnd else "nowind"), case_el, dict(N=N, L=L, wind=wnd)))
    cases.append(("equivalent_layers/N=3/L=2/integer-wind", case_el, dict(N=3, L=2, wind=True, int_wind=(3, 7, 12))))
    for L, t in ([(2, 30), (7, 60)] if tier == "quick" else [(2, 60), (3, 400), (4, 300), (5, 300), (6, 300), (7, 120), (8, 300)]):
        cases.append(("edges-fp/L=%d" % L, case_edges, dict(L=L, timeout_s=t)))
    O = [(3, 1, 1, None), (3, 2, 1, None), (4, 1, 1, (0, 1, 3, 7)), (4, 2, 1, (0, 1, 3, 7))]
    if tier == "thorough":
        O += [(5, 2, 1, (0, 2, 3, 7, 12)), (4, 3, 1, (0, 1, 3, 7)), (5, 3, 1, (0, 2, 3, 7, 12)), (4, 2, 2, (0, 1, 3, 7)), (5, 4, 1, (0, 2, 3, 7, 12))]
    for N, L, R, hs in O:
        cases.append(("optimal_grouping/N=%d/L=%d/R=%d/%s" % (N, L, R, "symbolic-heights" if hs is None else "concrete-heights"), case_og, dict(N=N, L=L, R=R, heights=hs)))
    for N, L in ([(3, 2)] if tier == "quick" else [(3, 2), (4, 2), (4, 3)]):
        cases.append(("GCTM-wrapper/N=%d/L=%d" % (N, L), case_gctm, dict(N=N, L=L)))
    H = [(3, 2, 0, (0, 1, 2))] if tier == "quick" else [(3, 2, 0, (0, 1, 2)), (3, 2, 1, (0, 1, 2)), (4, 2, 0, (0, 1, 3, 7)), (4, 3, 0, (0, 1, 3, 7))]
    for N, L, R, hs in H:
        cases.append(("optimal_grouping/N=%d/L=%d/R=%d/after-another-profile" % (N, L, R), case_og, dict(N=N, L=L, R=R, heights=hs, earlier=True)))
    return cases


if __name__ == "__main__":
    sys.exit(harness.main("C18", build_cases, FILES))
