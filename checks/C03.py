"""C03  Covariance construction is independent of process count and scheduling.

EUF mode: every floating-point operation is an uninterpreted function, so two matrices are equal only if
they are the same term, i.e. bit-identical under every interpretation of the arithmetic (IEEE-754 included).
The real make_covariance_matrix / _make_covariance_matrix / _make_covariance_matrix_mp / wfs_covariance_mpwrap
run with multiprocessing.Pool replaced by an in-process pool whose execution order is chosen by forking
(every order of the per-pair tasks; chunked completion for imap_unordered), results returned under the
contract of the Pool method the code called.  Decided: matrix(threads=k) is the same term array as
matrix(threads=1) for every schedule; rebuilding on the same object in any mode order returns the same
terms (no state carried over).  A sat witness is replayed on the real code with real floats and a
controlled pool executing the witness schedule, and with real multiprocessing.
"""
import sys

from .common import *  # noqa: F401,F403
from .common import numpy, z3, core, npx, harness, Sym, St, Fr, z, var, symarr, eqs, conj, all_eq, same_terms
from .covcommon import Geometry, generic_vals, concrete_matrix

FILES = ["aotools/turbulence/slopecovariance.py"]

MASKS = {"one": [[1]], "row": [[1, 1]], "L": [[1, 1], [1, 0]]}


def _sc():
    import aotools.turbulence.slopecovariance as sc
    return sc


def _D(sep, r0, L0):
    f = core.uf("Dvk", 3)

    def one(e):
        e = Sym.lift(e)
        return Sym(f(z(e.re), z(Sym.lift(r0).re), z(Sym.lift(L0).re)))
    if isinstance(sep, numpy.ndarray):
        out = numpy.empty(sep.shape, dtype=object)
        for i in numpy.ndindex(*sep.shape):
            out[i] = one(sep[i])
        return out.view(core.SA)
    return one(sep)


def geometry(mask_names, n_layers, alts):
    masks = [numpy.array(MASKS[m]) for m in mask_names]
    geo = Geometry(masks, n_layers)
    geo.alt = list(alts)            # concrete altitudes (0 = NGS): the NGS/LGS branch is concrete in EUF mode
    return geo, masks


def term_diff(A, B):
    """list of z3 disequalities between two term arrays (empty if structurally identical)"""
    A = numpy.asarray(A, dtype=object)
    B = numpy.asarray(B, dtype=object)
    if A.shape != B.shape:
        return None
    return eqs(A, B)


# ------------------------------------------------------------------ replay on the real code
class ControlledPool:
    """real functions, real floats; tasks executed in the given order, results per the method contract"""
    orders = []

    def __init__(self, n=None):
        pass

    def _order(self, n):
        if ControlledPool.orders:
            o = ControlledPool.orders.pop(0)
            if sorted(o) == list(range(n)):
                return list(o)
        return list(range(n))

    def map(self, fn, items, chunksize=None):
        items = list(items)
        res = [None] * len(items)
        for i in self._order(len(items)):
            res[i] = fn(items[i])
        return res

    def imap(self, fn, items, chunksize=1):
        return iter(self.map(fn, items))

    def imap_unordered(self, fn, items, chunksize=1):
        items = list(items)
        return iter([fn(items[i]) for i in self._order(len(items))])

    def starmap(self, fn, items, chunksize=None):
        return self.map(lambda a: fn(*a), items)

    def apply_async(self, fn, args=(), kwds=None, callback=None, error_callback=None):
        pool = self

        class H:
            done = False
            value = None

            def _run(h):
                if not h.done:
                    h.value = fn(*args, **(kwds or {}))
                    h.done = True
                    if callback is not None:
                        callback(h.value)

            def get(h, timeout=None):
                if not h.done:
                    pool._run_pending()
                return h.value

            def wait(h, timeout=None):
                h.get()

            def ready(h):
                return h.done
        h = H()
        self.__dict__.setdefault("_pending", []).append(h)
        return h

    def _run_pending(self):
        pend = [h for h in self.__dict__.get("_pending", []) if not h.done]
        for i in self._order(len(pend)):
            pend[i]._run()

    def close(self):
        pass

    def join(self):
        self._run_pending()

    def terminate(self):
        pass

    def __enter__(self):
        return self

    def __exit__(self, *a):
        return False


class _MP:
    Pool = ControlledPool


def replay_builds(mask_names, n_layers, alts, program, orders, gs_ndarray=False):
    """the witness schedule on the real code, for a generic geometry and for one whose layers lie at and above the lowest
    laser guide star (the symbolic layer altitudes are free: decisions the code takes on them fork)"""
    bad, detail = _replay_builds(mask_names, n_layers, alts, program, orders, gs_ndarray, high_layers=False)
    if bad or not any(a > 0 for a in alts):
        return bad, detail
    bad2, detail2 = _replay_builds(mask_names, n_layers, alts, program, orders, gs_ndarray, high_layers=True)
    if bad2:
        detail2["geometry"] = "layers at and above the lowest laser guide star altitude"
        return bad2, detail2
    return bad, detail


def _replay_builds(mask_names, n_layers, alts, program, orders, gs_ndarray=False, high_layers=False):
    sc = _sc()
    geo, masks = geometry(mask_names, n_layers, alts)
    vals = generic_vals(geo, 5)
    vals["alt"] = [float(a) for a in alts]
    if high_layers:
        lo = min(float(a) for a in alts if a > 0)
        vals["h"] = [lo * (1.0 + 0.25 * k_) for k_ in range(len(vals["h"]))]
    ref, _ = concrete_matrix(vals, masks, threads=1)
    n = len(masks)
    gs = numpy.array([list(p) for p in vals["gs"]], dtype=float) if gs_ndarray else [list(p) for p in vals["gs"]]
    gs0 = numpy.array(gs, dtype=float)
    args = (n, [numpy.asarray(m, dtype=float) for m in masks], vals["D"], list(vals["d"]), list(vals["alt"]), gs,
            list(vals["wv"]), n_layers, list(vals["h"]), list(vals["r0"]), list(vals["L0"]))
    bad = False
    notes = []
    for real_pool in (False, True):
        cm = sc.CovarianceMatrix(*args, threads=program[0])
        old = sc.multiprocessing
        if not real_pool:
            sc.multiprocessing = _MP
            ControlledPool.orders = [list(o) for o in orders]
        try:
            for k, th in enumerate(program):
                cm.threads = th
                try:
                    M = numpy.array(cm.make_covariance_matrix(), dtype=float)
                except Exception as e:
                    bad = True
                    notes.append("%s pool: build %d (threads=%d) raises %s: %s" % ("real" if real_pool else "controlled", k, th, type(e).__name__, str(e)[:120]))
                    break
                if gs_ndarray and not numpy.array_equal(numpy.asarray(gs, dtype=float), gs0):
                    bad = True
                    notes.append("the caller's guide-star array was modified by build %d" % k)
                    gs[...] = gs0
                same = M.shape == ref.shape and numpy.array_equal(M, ref, equal_nan=True)
                if not same:
                    bad = True
                    notes.append("%s pool: build %d (threads=%d) differs from the single-process reference in %d entries" % (
                        "real" if real_pool else "controlled", k, th, int(numpy.sum(M != ref)) if M.shape == ref.shape else -1))
        finally:
            sc.multiprocessing = old
    return bad, dict(what="; ".join(notes) or "all builds bit-identical", program=program, schedule=orders, masks=mask_names, altitudes=list(alts))


# ------------------------------------------------------------------ the case
def case_builds(ctx, mask_names, n_layers, alts, program, schedules, gs_ndarray=False):
    sc = _sc()
    geo, masks = geometry(mask_names, n_layers, alts)
    ctx.encoded(sc.CovarianceMatrix.make_covariance_matrix, sc.CovarianceMatrix._make_covariance_matrix,
                sc.CovarianceMatrix._make_covariance_matrix_mp, sc.wfs_covariance_mpwrap, sc.wfs_covariance, sc.mirror_covariance_matrix)
    ctx.bounds.update(masks=mask_names, layers=n_layers, altitudes=list(alts), build_program=program,
                      schedules="every execution order of the per-pair tasks" if schedules else "in-order execution",
                      mode="EUF (uninterpreted floating-point operations)")
    ctx.assume("multiprocessing.Pool meets its documented contract (map/imap ordered, imap_unordered in completion order, chunks in order); real OS scheduling and pickling are outside")
    St.fork_schedules = schedules

    if gs_ndarray:
        ctx.bounds.update(guide_star_positions="one ndarray shared by the reference and the object under test (the documented type)")

    def gargs(threads):
        a = list(geo.args(threads=threads))
        if gs_ndarray:
            a[5] = core.obj(numpy.array(a[5], dtype=object))
        return a

    def go():
        npx.PoolStub.executed = []
        with npx.symbolic(sc, extra={sc.__name__: {"structure_function_vk": _D}}):
            ref = sc.CovarianceMatrix(*gargs(1))
            R = numpy.asarray(ref.make_covariance_matrix(), dtype=object).copy()
            cm = sc.CovarianceMatrix(*gargs(program[0]))
            outs = []
            for th in program:
                cm.threads = th
                outs.append(numpy.asarray(cm.make_covariance_matrix(), dtype=object).copy())
            return R, outs, list(npx.PoolStub.executed)
    paths, ex = core.run_paths(go, [], max_paths=5000)
    ctx.explored(ex, len(paths))
    seen_orders = set()
    for pi, p in enumerate(paths):
        if p.exc is not None:
            if harness._encoding_limit(p.exc):
                ctx.inconclusive.append("%s/path%d: not encodable (%s: %s)" % (ctx.case, pi, type(p.exc).__name__, str(p.exc)[:200]))
                continue
            ctx.prove("path%d raises %s" % (pi, type(p.exc).__name__), p.pc, z3.BoolVal(False),
                      replay=lambda m: harness.pristine_call(replay_builds, mask_names, n_layers, list(alts), list(program), [], gs_ndarray), axioms=False)
            continue
        R, outs, executed = p.out
        orders = [o for (_, o) in executed]
        seen_orders.add(str(orders))
        rp = lambda m, orders=orders: harness.pristine_call(replay_builds, mask_names, n_layers, list(alts), list(program), orders, gs_ndarray)
        for k, M in enumerate(outs):
            d = term_diff(M, R)
            goal = z3.BoolVal(False) if d is None else conj(d)
            ctx.prove("schedule %s: build %d (threads=%d) is the same term array as the single-process matrix" % (orders, k, program[k]),
                      p.pc, goal, replay=rp, axioms=False)
    ctx.bounds["distinct_schedules_explored"] = len(seen_orders)
    ctx.prove("guard: a matrix differs from its transpose-negated copy (query can fail)", [], z3.BoolVal(False), expect="sat", kind="vacuity", axioms=False)


def build_cases(tier):
    cases = []
    P = []
    P.append((["row", "one"], 2, (90000, 0), [2], True))
    P.append((["row", "one"], 1, (90000, 0), [1, 2, 1], False))
    P.append((["one", "row"], 2, (0, 0), [2, 1, 2], False))
    P.append((["one", "one", "one"], 1, (90000, 0, 70000), [3, 2], True))
    P.append((["one", "one", "one", "one"], 1, (90000, 0, 70000, 0), [2], True))
    P.append((["L", "one"], 1, (0, 90000), [2, 2], False))
    if tier == "thorough":
        P.append((["row", "row", "one"], 2, (90000, 0, 0), [2, 1, 3], False))
        P.append((["one", "one", "one"], 2, (0, 80000, 0), [2], True))
        P.append((["one", "one", "one", "one"], 1, (0, 0, 0, 90000), [3, 1, 2], True))
        P.append((["one"] * 5, 1, (90000, 0, 0, 0, 0), [2], True))
    for mk, nl, alts, prog, sched in P:
        name = "builds/%s/layers=%d/alts=%s/program=%s/%s" % ("+".join(mk), nl, ",".join(str(a) for a in alts), "-".join(map(str, prog)), "all-orders" if sched else "in-order")
        cases.append((name, case_builds, dict(mask_names=mk, n_layers=nl, alts=alts, program=prog, schedules=sched, _mode="EUF")))
    # more worker processes than sensor pairs; guide-star positions handed over as one ndarray (rebuilds on one object)
    cases.append(("builds/row+one/layers=1/alts=90000,0/program=5-7/in-order/more-workers-than-pairs", case_builds,
                  dict(mask_names=["row", "one"], n_layers=1, alts=(90000, 0), program=[5, 7], schedules=False, _mode="EUF")))
    cases.append(("builds/one+row/layers=2/alts=0,90000/program=2-1-2/in-order/gs-ndarray", case_builds,
                  dict(mask_names=["one", "row"], n_layers=2, alts=(0, 90000), program=[2, 1, 2], schedules=False, gs_ndarray=True, _mode="EUF")))
    return cases


if __name__ == "__main__":
    sys.exit(harness.main("C03", build_cases, FILES))
