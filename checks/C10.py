"""C10  Optical propagators are linear and conserve power.

Real functions executed symbolically: aotools.opticalpropagation.{angularSpectrum, oneStepFresnel,
twoStepFresnel, lensAgainst} on symbolic complex fields and symbolic wavelength / spacings / distance /
focal length.  fouriertransform.ft2/ift2 are cut out under their C09 contract (checks/propcut.py); the
chirp factors are unit-circle pairs (c,s) with c^2+s^2=1.  Power: per-element lemmas |In_k[i]|^2 =
kappa_k |Out_{k-1}[i]|^2 with the physically expected stage scalars kappa_k, then one chain query in
the parameters.  A monolithic N=2 run with the exact DFT cross-checks the decomposition.
"""
import sys

from .common import *  # noqa: F401,F403
from .common import numpy, z3, core, npx, harness, Sym, St, Fr, z, var, symarr, eqs, conj, all_eq, power
from .propcut import FTCut, sumsq

FILES = ["aotools/opticalpropagation.py", "aotools/fouriertransform.py"]


def _op():
    import aotools.opticalpropagation as op
    return op


PROPS = ("angularSpectrum", "oneStepFresnel", "twoStepFresnel", "lensAgainst")


def params_for(prop):
    """symbolic parameters, preconditions, argument builder, oracle (stage scalars, d_in, d_out)"""
    lam, d1, d2, zz, f = var("wvl"), var("d1"), var("d2"), var("z"), var("f")
    if prop == "angularSpectrum":
        pre = [z(lam.re) > 0, z(d1.re) > 0, z(d2.re) > 0, z(zz.re) != 0]
        args = lambda U: (U, lam, d1, d2, zz)
        mag = d2 / d1
        oracle = lambda N, path: dict(kappa=[1 / (mag * mag), Sym(1), Sym(1)], d_in=d1, d_out=d2)
        names = dict(wvl=lam, d1=d1, d2=d2, z=zz)
    elif prop == "oneStepFresnel":
        pre = [z(lam.re) > 0, z(d1.re) > 0, z(zz.re) != 0]
        args = lambda U: (U, lam, d1, zz)
        oracle = lambda N, path: dict(kappa=[Sym(1), 1 / (lam * zz * lam * zz)], d_in=d1, d_out=lam * zz / (d1 * N))
        names = dict(wvl=lam, d1=d1, z=zz)
    elif prop == "lensAgainst":
        pre = [z(lam.re) > 0, z(d1.re) > 0, z(f.re) != 0]
        args = lambda U: (U, lam, d1, f)
        oracle = lambda N, path: dict(kappa=[Sym(1), 1 / (lam * f * lam * f)], d_in=d1, d_out=lam * f / (d1 * N))
        names = dict(wvl=lam, d1=d1, f=f)
    else:
        pre = [z(lam.re) > 0, z(d1.re) > 0, z(d2.re) > 0, z(zz.re) != 0]
        args = lambda U: (U, lam, d1, d2, zz)

        def oracle(N, path):
            # m = d2/d1; first plane at Dz1 = z/(1-m) (m != 1) or z/2 (m == 1); Dz2 = z - Dz1
            m_is_one = any(z3.is_eq(c) or True for c in path.pc) and _says_m_is_one(path, d1, d2)
            Dz1 = zz / 2 if m_is_one else zz / (1 - d2 / d1)
            Dz2 = zz - Dz1
            return dict(kappa=[Sym(1), 1 / (lam * Dz1 * lam * Dz1), 1 / (lam * Dz2 * lam * Dz2)], d_in=d1, d_out=d2)
        names = dict(wvl=lam, d1=d1, d2=d2, z=zz)
    return pre, args, oracle, names


def _says_m_is_one(path, d1, d2):
    """does the path condition imply d2 == d1 ?"""
    s = z3.Solver()
    s.add(path.pc)
    s.add(z(d1.re) > 0, z(d2.re) > 0)
    s.add(z(d2.re) != z(d1.re))
    return s.check() == z3.unsat


def run_cut(ctx, prop, U, pre, args, cut):
    op = _op()
    fn = getattr(op, prop)
    ctx.encoded(fn)

    def go():
        St.fork_div = True
        cut.calls.clear()
        with npx.symbolic(op, extra={op.__name__: {"fouriertransform": cut}}):
            return fn(*args(U)), list(cut.calls)
    paths, ex = core.run_paths(go, pre)
    St.fork_div = False
    ctx.explored(ex, len(paths))
    return paths


# ------------------------------------------------------------------ replay on the real code
def replay_power(prop, N, vals, d_out_fn):
    op = _op()
    rng = rng_for("replay" + prop)
    U = rand_complex(rng, (N, N))
    fn = getattr(op, prop)
    a = _concrete_args(prop, U, vals)
    out = fn(*a)
    d_in = vals["d1"]
    d_out = d_out_fn(vals)
    pin = float(numpy.sum(numpy.abs(U) ** 2)) * d_in ** 2
    pout = float(numpy.sum(numpy.abs(out) ** 2)) * d_out ** 2
    bad = not numpy.isfinite(pout) or abs(pout - pin) > 1e-7 * pin
    return bad, dict(what="%s does not conserve power" % prop, N=N, params=vals, power_in=pin, power_out=pout, ratio=pout / pin)


def _concrete_args(prop, U, v):
    if prop == "angularSpectrum":
        return (U, v["wvl"], v["d1"], v["d2"], v["z"])
    if prop == "oneStepFresnel":
        return (U, v["wvl"], v["d1"], v["z"])
    if prop == "lensAgainst":
        return (U, v["wvl"], v["d1"], v["f"])
    return (U, v["wvl"], v["d1"], v["d2"], v["z"])


def _d_out(prop, N):
    if prop in ("angularSpectrum", "twoStepFresnel"):
        return lambda v: v["d2"]
    if prop == "oneStepFresnel":
        return lambda v: abs(v["wvl"] * v["z"] / (N * v["d1"]))
    return lambda v: abs(v["wvl"] * v["f"] / (N * v["d1"]))


def replay_linear(prop, N, vals):
    op = _op()
    rng = rng_for("replaylin" + prop)
    u, v_ = rand_complex(rng, (N, N)), rand_complex(rng, (N, N))
    al, be = complex(0.5, -1.25), complex(-2.0, 0.75)
    fn = getattr(op, prop)
    r3 = fn(*_concrete_args(prop, al * u + be * v_, vals))
    r12 = al * fn(*_concrete_args(prop, u, vals)) + be * fn(*_concrete_args(prop, v_, vals))
    e = relerr(r3, r12)
    return e > 1e-9, dict(what="%s is not linear" % prop, N=N, params=vals, rel_err=e)


# ------------------------------------------------------------------ cases
def case_power(ctx, prop, N):
    pre, args, oracle, names = params_for(prop)
    U = symarr("U", (N, N), cplx=True)
    cut = FTCut(ctx, "cut", pre, rewrite=False)
    ctx.bounds.update(N=N, field="symbolic complex NxN", parameters="symbolic (wavelength>0, spacings>0, z or f != 0 of either sign)")
    ctx.assume("ft2/ift2 contract of C09 (delta scaling, Parseval) assumed at this N inside the propagators")
    paths = run_cut(ctx, prop, U, pre, args, cut)
    for pi, path in enumerate(paths):
        tag = "path%d" % pi
        hyp = pre + path.pc
        if path.exc is not None:
            ctx.prove("%s/no exception (%s)" % (tag, type(path.exc).__name__), hyp, z3.BoolVal(False),
                      replay=lambda m: (True, dict(what="raises %r" % path.exc)), axioms=False)
            continue
        R, calls = path.out
        orc = oracle(N, path)
        kap = orc["kappa"]
        if len(calls) + 1 != len(kap):
            ctx.prove("%s/number of transforms" % tag, hyp, z3.BoolVal(False),
                      replay=lambda m: _rp(prop, N, m, names), axioms=False)
            continue
        prev = U
        factor = Sym(1)        # P_R = factor * P_U accumulated through the stages
        ok = True
        stages = [c["data"] for c in calls] + [R]
        for k, cur in enumerate(stages):
            cur = numpy.asarray(cur, dtype=object)
            if cur.shape != prev.shape:
                ctx.prove("%s/stage%d shape" % (tag, k), hyp, z3.BoolVal(False), replay=lambda m: _rp(prop, N, m, names), axioms=False)
                ok = False
                break
            bad = 0
            for i in numpy.ndindex(*cur.shape):
                goal = conj(eqs(Sym.lift(cur[i]).abs2(), Sym.lift(prev[i]).abs2() * kap[k]))
                v, _ = ctx.prove("%s/stage%d[%s] |in|^2 = kappa |prev|^2" % (tag, k, ",".join(map(str, i))), hyp, goal,
                                 replay=lambda m: _rp(prop, N, m, names), witness_terms=names, timeout_ms=20000)
                if v != "unsat":
                    bad += 1
                    break          # one failing element decides the stage
            if bad:
                ok = False
                break
            factor = factor * kap[k]
            if k < len(calls):
                c = calls[k]
                sc = c["scale"]
                factor = factor * sc * sc * (Fr(N * N) if c["kind"] == "D" else Fr(1, N * N))
                prev = c["out"]
        if not ok:
            continue
        goal = conj(eqs(factor * orc["d_out"] * orc["d_out"], orc["d_in"] * orc["d_in"]))
        ctx.prove("%s/chain: sum|Uout|^2 d_out^2 = sum|Uin|^2 d_in^2" % tag, hyp, goal,
                  replay=lambda m: _rp(prop, N, m, names), witness_terms=names, timeout_ms=60000)
        ctx.prove("%s/guard: doubled output power is refutable" % tag, hyp, conj(eqs(factor * 2 * orc["d_out"] * orc["d_out"], orc["d_in"] * orc["d_in"])),
                  expect="sat", kind="sensitivity")
        ctx.prove("%s/guard: path satisfiable" % tag, hyp, z3.BoolVal(False), expect="sat", kind="vacuity", axioms=False)


def case_power_history(ctx, prop, N):
    """a sequence of calls with concrete parameter sets related by scalings (equal derived spacings, ratios, products):
    power must be conserved in each call - nothing may be carried over from an earlier geometry"""
    seq = [dict(wvl=Fr(1, 2), d1=Fr(1), d2=Fr(2), z=Fr(4), f=Fr(4)), dict(wvl=Fr(1), d1=Fr(2), d2=Fr(4), z=Fr(4), f=Fr(4)),
           dict(wvl=Fr(1, 2), d1=Fr(2), d2=Fr(1), z=Fr(8), f=Fr(8)), dict(wvl=Fr(1, 2), d1=Fr(1), d2=Fr(2), z=Fr(-4), f=Fr(-4)),
           dict(wvl=Fr(1), d1=Fr(1), d2=Fr(2), z=Fr(2), f=Fr(2)),
           # one parameter apart from the first geometry, each in turn, then the first geometry again
           dict(wvl=Fr(1, 2), d1=Fr(1), d2=Fr(2), z=Fr(4), f=Fr(4)), dict(wvl=Fr(1, 2), d1=Fr(1), d2=Fr(3), z=Fr(4), f=Fr(4)),
           dict(wvl=Fr(1, 2), d1=Fr(3), d2=Fr(3), z=Fr(4), f=Fr(4)), dict(wvl=Fr(1, 4), d1=Fr(3), d2=Fr(3), z=Fr(4), f=Fr(4)),
           dict(wvl=Fr(1, 4), d1=Fr(3), d2=Fr(3), z=Fr(6), f=Fr(6)), dict(wvl=Fr(1, 2), d1=Fr(1), d2=Fr(2), z=Fr(4), f=Fr(4))]
    op = _op()
    fn = getattr(op, prop)
    ctx.encoded(fn)
    ctx.bounds.update(N=N, history=[{k: str(v) for k, v in s_.items()} for s_ in seq], field="symbolic complex")
    cut = FTCut(ctx, "cut", [], rewrite=False)
    rp = lambda m: harness.pristine_call(replay_power_history, prop, N, [{k: float(v) for k, v in s_.items()} for s_ in seq])
    ctx.fallback = rp
    for k, vals in enumerate(seq):
        U = symarr("U%d" % k, (N, N), cplx=True)
        sv = {kk: Sym(v) for kk, v in vals.items()}
        args = dict(angularSpectrum=(U, sv["wvl"], sv["d1"], sv["d2"], sv["z"]), oneStepFresnel=(U, sv["wvl"], sv["d1"], sv["z"]),
                    twoStepFresnel=(U, sv["wvl"], sv["d1"], sv["d2"], sv["z"]), lensAgainst=(U, sv["wvl"], sv["d1"], sv["f"]))[prop]
        cut.calls.clear()
        St.fork_div = True
        with npx.symbolic(op, extra={op.__name__: {"fouriertransform": cut}}):
            R = fn(*args)
        St.fork_div = False
        ctx.paths += 1
        calls = list(cut.calls)
        # total power through the cut contract: |raw|^2 sums are linked by N^2 factors; do it per stage as in case_power
        d_in = sv["d1"]
        if prop in ("angularSpectrum", "twoStepFresnel"):
            d_out = sv["d2"]
        elif prop == "oneStepFresnel":
            d_out = sv["wvl"] * sv["z"] / (sv["d1"] * N)
        else:
            d_out = sv["wvl"] * sv["f"] / (sv["d1"] * N)
        prev = U
        factor = None
        ok = True
        stages = [c_["data"] for c_ in calls] + [R]
        kap_total = Sym(1)
        for si, cur in enumerate(stages):
            cur = numpy.asarray(cur, dtype=object)
            # the stage scalar is read off the first element and must hold for all (each proved)
            i0 = tuple(0 for _ in cur.shape)
            p0 = Sym.lift(prev[i0]).abs2()
            c0 = Sym.lift(cur[i0]).abs2()
            # ratio as a rational function of the first element's variables with |prev| = 1: substitute prev := 1
            subs = [(Sym.lift(prev[i0]).re, z3.RealVal(1)), (Sym.lift(prev[i0]).im, z3.RealVal(0))]
            kap = Sym(z3.simplify(z3.substitute(z(c0.re), *subs)))
            for i in numpy.ndindex(*cur.shape):
                goal = conj(eqs(Sym.lift(cur[i]).abs2(), Sym.lift(prev[i]).abs2() * kap))
                v, _ = ctx.prove("call %d stage %d [%s]: |in|^2 = kappa |prev|^2 with one kappa for the whole array" % (k, si, ",".join(map(str, i))), [], goal, replay=rp, timeout_ms=20000)
                if v != "unsat":
                    ok = False
                    break
            if not ok:
                break
            kap_total = kap_total * kap
            if si < len(calls):
                c_ = calls[si]
                sc_ = c_["scale"]
                kap_total = kap_total * sc_ * sc_ * (Fr(N * N) if c_["kind"] == "D" else Fr(1, N * N))
                prev = c_["out"]
        if ok:
            ctx.prove("call %d: power conserved (sum|Uout|^2 d_out^2 = sum|Uin|^2 d_in^2)" % k, [], conj(eqs(kap_total * d_out * d_out, d_in * d_in)), replay=rp, timeout_ms=60000)


def replay_power_history(prop, N, seq):
    op = _op()
    fn = getattr(op, prop)
    rng = rng_for("hist" + prop)
    notes = []
    bad = False
    for k, v in enumerate(seq):
        U = rand_complex(rng, (8, 8))
        out = fn(*_concrete_args(prop, U, v))
        d_out = _d_out(prop, 8)(v)
        pin = float(numpy.sum(numpy.abs(U) ** 2)) * v["d1"] ** 2
        pout = float(numpy.sum(numpy.abs(out) ** 2)) * d_out ** 2
        if not numpy.isfinite(pout) or abs(pout - pin) > 1e-7 * pin:
            bad = True
            notes.append("call %d %s: power ratio %.6g" % (k, v, pout / pin))
    return bad, dict(what="; ".join(notes) or "power conserved in every call of the sequence")


def _rp(prop, N, m, names):
    vals = {k: m(v) for k, v in names.items()}
    return replay_power(prop, N, vals, _d_out(prop, N))


def case_linear(ctx, prop, N):
    pre, args, oracle, names = params_for(prop)
    u = symarr("u", (N, N), cplx=True)
    v = symarr("v", (N, N), cplx=True)
    al, be = core.cvar("al"), core.cvar("be")
    ctx.bounds.update(N=N, fields="two symbolic complex NxN fields, symbolic complex coefficients")
    cutA = FTCut(ctx, "A", pre, rewrite=False)
    cutB = FTCut(ctx, "B", pre, rewrite=False)
    pa = run_cut(ctx, prop, u, pre, args, cutA)
    pb = run_cut(ctx, prop, v, pre, args, cutB)
    for pi in range(len(pa)):
        if pa[pi].exc is not None or pb[pi].exc is not None:
            continue
        RA, callsA = pa[pi].out
        RB, callsB = pb[pi].out
        A2 = FTCut(ctx, "A", pre, rewrite=False)
        A2.calls = callsA
        B2 = FTCut(ctx, "B", pre, rewrite=False)
        B2.calls = callsB
        cutC = FTCut(ctx, "C", pre, combo=(A2, al, B2, be))
        hyp0 = pre + pa[pi].pc
        pc_ = run_cut(ctx, prop, u * al + v * be, hyp0, args, cutC)
        for pj, pth in enumerate(pc_):
            if pth.exc is not None:
                continue
            RC, callsC = pth.out
            hyp = hyp0 + pth.pc
            rp = lambda m: replay_linear(prop, N, {k: m(t) for k, t in names.items()})
            for k, c in enumerate(callsC):
                ctx.prove("path%d/transform %d input is the same combination" % (pi, k), hyp,
                          all_eq(c["data"], callsA[k]["data"] * al + callsB[k]["data"] * be), replay=rp, witness_terms=names)
                ctx.prove("path%d/transform %d called with the same spacing" % (pi, k), hyp,
                          conj(eqs(c["delta"], callsA[k]["delta"]) + eqs(c["delta"], callsB[k]["delta"])), replay=rp, witness_terms=names)
            ctx.prove("path%d/P(al u + be v) = al P(u) + be P(v)" % pi, hyp, all_eq(RC, RA * al + RB * be), replay=rp, witness_terms=names)


def case_mono(ctx, prop, N, prove_power=True):
    """cross-check of the decomposition: exact DFT, no cut, power conservation in one query"""
    pre, args, oracle, names = params_for(prop)
    import aotools.fouriertransform as ftm
    op = _op()
    U = symarr("U", (N, N), cplx=True)
    ctx.bounds.update(N=N, note="monolithic encoding with the exact DFT")
    fn = getattr(op, prop)
    ctx.encoded(fn, ftm.ft2, ftm.ift2)

    def go():
        St.fork_div = True
        with npx.symbolic(op, ftm):
            return fn(*args(U))
    paths, ex = core.run_paths(go, pre)
    St.fork_div = False
    ctx.explored(ex, len(paths))
    for pi, path in enumerate(paths):
        if path.exc is not None or not prove_power:
            continue
        orc = oracle(N, path)
        goal = conj(eqs(sumsq(path.out) * orc["d_out"] * orc["d_out"], sumsq(U) * orc["d_in"] * orc["d_in"]))
        ctx.prove("path%d/power conserved (monolithic)" % pi, pre + path.pc, goal, timeout_ms=120000,
                  replay=lambda m: _rp(prop, N, m, names), witness_terms=names)
    # translation validation of the whole pipeline against the real propagator
    rng = rng_for("val" + prop)
    Uv = rand_complex(rng, (N, N))
    vals = dict(wvl=0.5, d1=0.75, d2=1.25, z=3.0, f=2.0)
    a = assign_of(U, Uv)
    a.update(vals)
    for path in paths:
        if path.exc is None and _holds(path.pc, vals):
            ctx.validate(prop, evaluate(path.out, a), lambda: fn(*_concrete_args(prop, Uv, vals)))


def _holds(pc, vals):
    s = z3.Solver()
    s.add(pc)
    for k, v in vals.items():
        s.add(z3.Real(k) == z3.RealVal(str(Fr(v))))
    return s.check() == z3.sat


# ------------------------------------------------------------------ real-valued input fields (pupil masks, amplitudes)
def replay_typed_field(prop, N, vals, dtype_name):
    op = _op()
    fn = getattr(op, prop)
    rng = numpy.random.RandomState(11)
    u = numpy.round(rng.uniform(0, 2, size=(N, N)) * 4) / 4
    if dtype_name in ("bool", "int64"):
        u = (u > 1).astype(dtype_name)
        if not u.any():
            u.flat[0] = 1
    ut = u.astype(dtype_name)
    try:
        a = numpy.asarray(fn(*_concrete_args(prop, ut, vals)))
    except Exception as e:
        return True, dict(what="%s raises %s for a %s field" % (prop, type(e).__name__, dtype_name))
    b = numpy.asarray(fn(*_concrete_args(prop, ut.astype(complex), vals)))
    e = relerr(a, b)
    return e > 1e-9, dict(what="%s of a %s field differs from %s of the same values as complex128" % (prop, dtype_name, prop), N=N, params=vals, rel_err=e)


def case_typed_field(ctx, prop, N, dtype_name):
    """a real (float / int / bool) input field - a pupil mask or an amplitude - propagates like the same values stored as
    complex128: no buffer or factor may be cast 'like the input'"""
    St.typed_casts = True
    seq = dict(wvl=Fr(1, 2), d1=Fr(1), d2=Fr(2), z=Fr(4), f=Fr(4))
    op = _op()
    fn = getattr(op, prop)
    ctx.encoded(fn)
    ctx.bounds.update(N=N, field="symbolic real NxN of dtype %s" % dtype_name, parameters={k: str(v) for k, v in seq.items()})
    U = core.typed(symarr("U", (N, N)), dtype_name)
    Uc = numpy.array([e for e in U.flat], dtype=object).reshape(N, N).view(core.SA)
    pre = []
    if dtype_name in ("bool", "int64"):
        pre = [z3.Or(z(e.re) == 0, z(e.re) == 1) for e in U.flat]
    sv = {k: Sym(v) for k, v in seq.items()}
    vals = {k: float(v) for k, v in seq.items()}
    rp = lambda m: replay_typed_field(prop, N, vals, dtype_name)
    ctx.fallback = rp

    import aotools.fouriertransform as ftm

    def go():
        with npx.symbolic(op, ftm):
            return numpy.asarray(fn(*_concrete_args(prop, U.copy(), sv)), dtype=object), numpy.asarray(fn(*_concrete_args(prop, Uc.copy(), sv)), dtype=object)
    St.fork_div = True
    paths, ex = core.run_paths(go, pre, max_paths=32)
    St.fork_div = False
    ctx.explored(ex, len(paths))
    for pi, pth in enumerate(paths):
        if pth.exc is not None:
            if isinstance(pth.exc, ZeroDivisionError):
                continue
            ctx.prove("path%d: %s raises %s for a %s field" % (pi, prop, type(pth.exc).__name__, dtype_name), pre + pth.pc, z3.BoolVal(False), replay=rp, axioms=False)
            continue
        a, b = pth.out
        ctx.prove("path%d: %s of a %s field = %s of the same values as complex128" % (pi, prop, dtype_name, prop), pre + pth.pc,
                  all_eq(a, b) if a.shape == b.shape else z3.BoolVal(False), replay=rp, timeout_ms=60000, replay_on_unknown=True)


def build_cases(tier):
    cases = []
    for prop in PROPS:
        for dt in (("float64",) if tier == "quick" else ("float64", "bool", "int64", "float32")):
            cases.append(("typed-field/%s/N=2/%s" % (prop, dt), case_typed_field, dict(prop=prop, N=2, dtype_name=dt)))
    sizes = [2, 4, 8] if tier == "quick" else [2, 4, 6, 8, 12, 16]
    for prop in PROPS:
        for N in sizes:
            cases.append(("power/%s/N=%d" % (prop, N), case_power, dict(prop=prop, N=N)))
        for N in ([2, 4] if tier == "quick" else [2, 4, 8]):
            cases.append(("linear/%s/N=%d" % (prop, N), case_linear, dict(prop=prop, N=N)))
        # monolithic cross-check (exact DFT, no cut): the power query decides quickly only for the single-transform
        # propagators; for the other two the monolithic run is used for translation validation only
        cases.append(("power-history/%s/N=2" % prop, case_power_history, dict(prop=prop, N=2)))
        cases.append(("mono/%s/N=2" % prop, case_mono, dict(prop=prop, N=2, prove_power=prop in ("oneStepFresnel", "lensAgainst"))))
        if tier == "thorough":
            cases.append(("mono/%s/N=4" % prop, case_mono, dict(prop=prop, N=4, prove_power=False)))
    return cases


if __name__ == "__main__":
    sys.exit(harness.main("C10", build_cases, FILES))
