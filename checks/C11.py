"""C11  Propagators form a group and agree with each other (algebraic part).

Decided (real functions of aotools.opticalpropagation, ft2/ift2 cut under the C09 contract incl. the
inverse-pair rewriting, chirps as unit-circle pairs with solver-proved angle relations):
  (a) angularSpectrum with z == 0 returns the input
  (b) unit magnification: P(z2) o P(z1) = P(z1+z2) and P(-z) o P(z) = id
  (c) magnification m then 1/m with -z recovers the input (the 1e-10 regulariser = the constant phase)
  (d) lensAgainst(U, f) = oneStepFresnel(U * lens phase, z = f)
  (e) twoStepFresnel = two chained oneStepFresnel calls through the plane z/(1-m), output spacing d2
  (h) history: a call with another magnification / distance in between does not change any of the above
Outside (not algebraic identities, DESIGN.md): angular spectrum vs Fresnel-FFT agreement, Gaussian beam, Airy.
"""
import sys

from .common import *  # noqa: F401,F403
from .common import numpy, z3, core, npx, harness, Sym, St, Fr, z, var, symarr, eqs, conj, all_eq
from .propcut import FTCut, AngleAxioms

FILES = ["aotools/opticalpropagation.py", "aotools/fouriertransform.py"]


def _op():
    import aotools.opticalpropagation as op
    return op


class Split(Exception):
    """a propagator call has several feasible paths under the case's preconditions (a value-dependent branch in the
    code under test): the whole case is re-run once per path, with that path's condition added to the preconditions"""

    def __init__(self, name, pcs):
        Exception.__init__(self, name)
        self.pcs = pcs


def splitting(case):
    """decorator: run `case`; when a call splits, re-run the case under each path condition (recursively; at most
    MAX_LEAVES sub-cases - beyond that the remaining ones are reported as not decided)"""
    MAX_LEAVES = 12

    def wrapper(ctx, **kw):
        todo = [()]
        done = 0
        while todo:
            extra = todo.pop(0)
            if done >= MAX_LEAVES:
                ctx.inconclusive.append("%s: %d path combinations of value-dependent branches examined; further ones not decided" % (ctx.case, done))
                break
            try:
                ctx.tag = ("split%d: " % done) if extra else ""
                case(ctx, extra=tuple(extra), **kw)
                done += 1
            except Split as sp:
                ctx.bounds["value_dependent_branches"] = ctx.bounds.get("value_dependent_branches", 0) + 1
                for pc in sp.pcs:
                    todo.append(tuple(extra) + tuple(pc))
        ctx.tag = ""
    wrapper.__name__ = case.__name__
    wrapper.__doc__ = case.__doc__
    return wrapper


class Env:
    def __init__(self, ctx, N, pre, params):
        self.ctx = ctx
        self.N = N
        self.pre = list(pre)
        self.tag = getattr(ctx, "tag", "")
        self.angles = AngleAxioms(ctx, pre, params)
        self.cut = FTCut(ctx, "cut", pre, rewrite=True, angles=self.angles)
        self.op = _op()

    def run(self, name, *args):
        fn = getattr(self.op, name)
        self.ctx.encoded(fn)

        def go():
            with npx.symbolic(self.op, extra={self.op.__name__: {"fouriertransform": self.cut}}):
                return fn(*args)
        ncalls = len(self.cut.calls)
        paths, ex = core.run_paths(go, self.pre)
        self.ctx.explored(ex, len(paths))
        if len(paths) != 1:
            raise Split(name, [list(p.pc) for p in paths])
        if paths[0].exc is not None:
            raise paths[0].exc
        return paths[0].out

    def prove_eq(self, name, a, b, replay, names):
        a = numpy.asarray(a, dtype=object)
        b = numpy.asarray(b, dtype=object)
        if a.shape != b.shape:
            self.ctx.prove(self.tag + name + " (shape)", self.pre, z3.BoolVal(False), replay=replay, witness_terms=names, axioms=False)
            return
        for i in numpy.ndindex(*a.shape):
            goal = conj(eqs(a[i], b[i]))
            goal, ax = self.angles.apply(goal)
            v, _ = self.ctx.prove("%s%s [%s]" % (self.tag, name, ",".join(map(str, i))), self.pre, goal, extra_axioms=ax, replay=replay,
                                  witness_terms=names, timeout_ms=30000)
            if v != "unsat":
                break


# ------------------------------------------------------------------ replays on the real code
def _U(N, tag):
    return rand_complex(rng_for("c11" + tag), (N, N))


def _close(a, b):
    e = relerr(a, b)
    return (not numpy.isfinite(e)) or e > 1e-7, e


def replay_group(N, v, z1, z2, d3=None):
    op = _op()
    U = _U(N, "g")
    if d3 is not None:      # the same history as in the symbolic run, on the real code
        op.angularSpectrum(_U(N, "h1"), v["wvl"], v["d1"], d3, z1)
        op.angularSpectrum(_U(N, "h2"), v["wvl"], v["d1"], d3, z2)
    a = op.angularSpectrum(op.angularSpectrum(U, v["wvl"], v["d1"], v["d1"], z1), v["wvl"], v["d1"], v["d1"], z2)
    b = op.angularSpectrum(U, v["wvl"], v["d1"], v["d1"], z1 + z2)
    bad, e = _close(a, b)
    return bad, dict(what="P(z2)oP(z1) != P(z1+z2) at unit magnification", N=N, params=v, z1=z1, z2=z2, rel_err=e)


def replay_mag(N, v, history=False):
    op = _op()
    U = _U(N, "m")
    if history:
        op.angularSpectrum(_U(N, "h1"), v["wvl"], v["d1"], v["d1"], v["z"])
        op.angularSpectrum(_U(N, "h2"), v["wvl"], v["d2"], v["d2"], -v["z"])
    f = op.angularSpectrum(U, v["wvl"], v["d1"], v["d2"], v["z"])
    b = op.angularSpectrum(f, v["wvl"], v["d2"], v["d1"], -v["z"])
    # up to a constant phase: compare after removing the phase of the largest element
    i = numpy.unravel_index(numpy.argmax(numpy.abs(U)), U.shape)
    ph = b[i] / U[i]
    bad, e = _close(b, U * ph)
    bad = bad or abs(abs(ph) - 1) > 1e-7
    return bad, dict(what="m then 1/m does not recover the input up to a constant phase", N=N, params=v, rel_err=e, factor=[ph.real, ph.imag])


def replay_lens(N, v):
    op = _op()
    U = _U(N, "l")
    k = 2 * numpy.pi / v["wvl"]
    x = numpy.arange(-N / 2., N / 2.) * v["d1"]
    X, Y = numpy.meshgrid(x, x)
    a = op.lensAgainst(U, v["wvl"], v["d1"], v["f"])
    b = op.oneStepFresnel(U * numpy.exp(-1j * k / (2 * v["f"]) * (X ** 2 + Y ** 2)), v["wvl"], v["d1"], v["f"])
    bad, e = _close(a, b)
    return bad, dict(what="lensAgainst != oneStepFresnel(U*lens phase, f)", N=N, params=v, rel_err=e)


def replay_two(N, v):
    op = _op()
    U = _U(N, "t")
    m = v["d2"] / v["d1"]
    Dz1 = v["z"] / (1 - m) if m != 1 else v["z"] / 2
    Dz2 = v["z"] - Dz1
    a = op.twoStepFresnel(U, v["wvl"], v["d1"], v["d2"], v["z"])
    d1a = v["wvl"] * Dz1 / (N * v["d1"])
    b = op.oneStepFresnel(op.oneStepFresnel(U, v["wvl"], v["d1"], Dz1), v["wvl"], d1a, Dz2)
    bad, e = _close(a, b)
    return bad, dict(what="twoStepFresnel != two chained oneStepFresnel calls", N=N, params=v, rel_err=e)


# ------------------------------------------------------------------ cases
def case_zero(ctx, N):
    op = _op()
    U = symarr("U", (N, N), cplx=True)
    lam, d1, d2, zz = var("wvl"), var("d1"), var("d2"), var("z")
    pre = [z(lam.re) > 0, z(d1.re) > 0, z(d2.re) > 0]
    ctx.encoded(op.angularSpectrum)
    ctx.bounds.update(N=N, z="symbolic (any real); the z == 0 path is examined")
    cut = FTCut(ctx, "cut", pre, rewrite=False)

    def go():
        with npx.symbolic(op, extra={op.__name__: {"fouriertransform": cut}}):
            return op.angularSpectrum(U, lam, d1, d2, zz)
    paths, ex = core.run_paths(go, pre)
    ctx.explored(ex, len(paths))
    zero = [p for p in paths if _implies(pre + p.pc, z(zz.re) == 0)]
    ctx.prove("a z == 0 path exists", [], z3.BoolVal(len(zero) == 1), replay=lambda m: (True, dict(what="no distinct z == 0 path")), axioms=False)
    for p in zero:
        same = p.out is U or same_terms(p.out, U)
        ctx.prove("z == 0 returns the input", pre + p.pc, all_eq(p.out, U) if not same else z3.BoolVal(True),
                  replay=lambda m: _replay_zero(N, m(lam), m(d1), m(d2)), witness_terms=dict(wvl=lam, d1=d1, d2=d2))
    # also with the literal 0 and 0.0
    for lit in (0, 0.0):
        with npx.symbolic(op, extra={op.__name__: {"fouriertransform": cut}}):
            out = op.angularSpectrum(U, lam, d1, d2, lit)
        ctx.prove("z = %r returns the input" % lit, pre, all_eq(out, U), replay=lambda m: _replay_zero(N, m(lam), m(d1), m(d2)),
                  witness_terms=dict(wvl=lam, d1=d1, d2=d2))


def _implies(hyp, goal):
    s = z3.Solver()
    s.add(hyp)
    s.add(z3.Not(goal))
    return s.check() == z3.unsat


def _replay_zero(N, lam, d1, d2):
    op = _op()
    U = _U(N, "z")
    out = op.angularSpectrum(U, lam, d1, d2, 0.0)
    bad, e = _close(out, U)
    return bad, dict(what="angularSpectrum(z=0) != input", rel_err=e)


@splitting
def case_group(ctx, N, history, extra=()):
    lam, d1, z1, z2 = var("wvl"), var("d1"), var("z1"), var("z2")
    pre = [z(lam.re) > 0, z(d1.re) > 0, z(z1.re) != 0, z(z2.re) != 0, z(z1.re) + z(z2.re) != 0] + list(extra)
    names = dict(wvl=lam, d1=d1, z1=z1, z2=z2)
    if history:
        names["d3"] = var("d3")
    env = Env(ctx, N, pre, [lam, d1, z1, z2])
    U = symarr("U", (N, N), cplx=True)
    ctx.bounds.update(N=N, magnification="1 (outputSpacing is inputSpacing)", distances="symbolic z1, z2 != 0, z1+z2 != 0, either sign",
                      history=history)
    ctx.assume("ft2/ift2 contract of C09 (delta scaling, linearity, mutual inverses) at this N")
    d3 = None
    if history:
        # (h) an unrelated call with another magnification and the same N, wavelength, spacing, distance first
        d3 = var("d3")
        env.pre.append(z(d3.re) > 0)
        env.run("angularSpectrum", symarr("V", (N, N), cplx=True), lam, d1, d3, z1)
        env.run("angularSpectrum", symarr("V", (N, N), cplx=True), lam, d1, d3, z2)
    a1 = env.run("angularSpectrum", U, lam, d1, d1, z1)
    a2 = env.run("angularSpectrum", a1, lam, d1, d1, z2)
    b = env.run("angularSpectrum", U, lam, d1, d1, z1 + z2)
    rp = lambda m: harness.pristine_call(replay_group, N, dict(wvl=m(lam), d1=m(d1)), m(z1), m(z2), (m(d3) if d3 is not None else None))
    ctx.fallback = rp
    env.prove_eq("P(z2)oP(z1) = P(z1+z2)", a2, b, rp, names)
    back = env.run("angularSpectrum", a1, lam, d1, d1, -z1)
    rp2 = lambda m: harness.pristine_call(_replay_inverse, N, m(lam), m(d1), m(z1), (m(d3) if d3 is not None else None), m(z2))
    env.prove_eq("P(-z)oP(z) = id", back, U, rp2, names)
    ctx.prove(env.tag + "guard: P(z2)oP(z1) = P(z1) is refutable", env.pre + [z(U[0, 0].re) != 0], all_eq(a2, a1), expect="sat", kind="sensitivity", timeout_ms=20000)
    ctx.bounds["solver_proved_angle_relations"] = env.angles.relations
    ctx.bounds["inverse_pair_rewrites"] = env.cut.rewrites


def _replay_inverse(N, lam, d1, z1, d3=None, z2=None):
    op = _op()
    U = _U(N, "i")
    if d3 is not None:
        op.angularSpectrum(_U(N, "h1"), lam, d1, d3, z1)
        op.angularSpectrum(_U(N, "h2"), lam, d1, d3, z2)
    a = op.angularSpectrum(op.angularSpectrum(U, lam, d1, d1, z1), lam, d1, d1, -z1)
    bad, e = _close(a, U)
    return bad, dict(what="P(-z)oP(z) != id", N=N, wvl=lam, d1=d1, z=z1, rel_err=e, d3=d3, z2=z2)


@splitting
def case_mag(ctx, N, history, extra=()):
    lam, d1, d2, zz = var("wvl"), var("d1"), var("d2"), var("z")
    pre = [z(lam.re) > 0, z(d1.re) > 0, z(d2.re) > 0, z(zz.re) != 0, z(d1.re) != z(d2.re)] + list(extra)
    names = dict(wvl=lam, d1=d1, d2=d2, z=zz)
    env = Env(ctx, N, pre, [lam, d1, d2, zz])
    U = symarr("U", (N, N), cplx=True)
    ctx.bounds.update(N=N, magnification="symbolic d2/d1 != 1", history=history)
    if history:
        env.run("angularSpectrum", symarr("V", (N, N), cplx=True), lam, d1, d1, zz)
        env.run("angularSpectrum", symarr("V", (N, N), cplx=True), lam, d2, d2, -zz)
    f = env.run("angularSpectrum", U, lam, d1, d2, zz)
    b = env.run("angularSpectrum", f, lam, d2, d1, -zz)
    rp = lambda m: harness.pristine_call(replay_mag, N, {k: m(t) for k, t in names.items()}, history)
    ctx.fallback = rp
    env.prove_eq("back-propagation with 1/m recovers the input", b, U, rp, names)
    ctx.bounds["solver_proved_angle_relations"] = env.angles.relations
    ctx.bounds["inverse_pair_rewrites"] = env.cut.rewrites


@splitting
def case_lens(ctx, N, extra=()):
    lam, d1, f = var("wvl"), var("d1"), var("f")
    pre = [z(lam.re) > 0, z(d1.re) > 0, z(f.re) != 0] + list(extra)
    names = dict(wvl=lam, d1=d1, f=f)
    env = Env(ctx, N, pre, [lam, d1, f])
    U = symarr("U", (N, N), cplx=True)
    ctx.bounds.update(N=N, focal_length="symbolic != 0")
    a = env.run("lensAgainst", U, lam, d1, f)
    # thin-lens phase written independently by the harness
    xs = numpy.empty(N, dtype=object)
    for i in range(N):
        xs[i] = d1 * Fr(2 * i - N, 2)
    lens = numpy.empty((N, N), dtype=object)
    k = Sym(2) * numpy.pi / lam
    for i in range(N):
        for j in range(N):
            lens[i, j] = core.sym_exp(Sym(0, -1) * k / (f * 2) * (xs[j] * xs[j] + xs[i] * xs[i]))
    b = env.run("oneStepFresnel", core.obj(U * lens), lam, d1, f)
    rp = lambda m: replay_lens(N, {k_: m(t) for k_, t in names.items()})
    ctx.fallback = rp
    env.prove_eq("lensAgainst(U,f) = oneStepFresnel(U*lens,f)", a, b, rp, names)
    ctx.bounds["solver_proved_angle_relations"] = env.angles.relations


@splitting
def case_two(ctx, N, unit, extra=()):
    lam, d1, d2, zz = var("wvl"), var("d1"), var("d2"), var("z")
    if unit:
        d2 = d1
        pre = [z(lam.re) > 0, z(d1.re) > 0, z(zz.re) != 0]
    else:
        pre = [z(lam.re) > 0, z(d1.re) > 0, z(d2.re) > 0, z(zz.re) != 0, z(d1.re) != z(d2.re)]
    pre = pre + list(extra)
    names = dict(wvl=lam, d1=d1, d2=d2, z=zz)
    env = Env(ctx, N, pre, [lam, d1, d2, zz] if not unit else [lam, d1, zz])
    U = symarr("U", (N, N), cplx=True)
    ctx.bounds.update(N=N, magnification="1 (ZeroDivisionError branch)" if unit else "symbolic d2/d1 != 1")
    St.fork_div = True
    a = env.run("twoStepFresnel", U, lam, d1, d2, zz)
    St.fork_div = False
    m = d2 / d1
    Dz1 = zz / 2 if unit else zz / (1 - m)
    Dz2 = zz - Dz1
    d1a = lam * Dz1 / (d1 * N)
    env.pre.append(z(Dz1.re) != 0)
    t = env.run("oneStepFresnel", U, lam, d1, Dz1)
    b = env.run("oneStepFresnel", t, lam, d1a, Dz2)
    rp = lambda mm: replay_two(N, {k_: mm(t_) for k_, t_ in names.items()})
    ctx.fallback = rp
    env.prove_eq("twoStepFresnel = oneStep(Dz2) o oneStep(Dz1)", a, b, rp, names)
    # the second one-step lands on spacing d2: lambda Dz2 / (N d1a) = +- d2
    out_sp = lam * Dz2 / (d1a * N)
    ctx.prove(env.tag + "output spacing of the chained steps is d2 (up to sign)", env.pre, z(out_sp.re) * z(out_sp.re) == z(d2.re) * z(d2.re),
              replay=rp, witness_terms=names)
    ctx.bounds["solver_proved_angle_relations"] = env.angles.relations


def build_cases(tier):
    cases = []
    sizes = [2, 4] if tier == "quick" else [2, 4, 6, 8]
    for N in sizes:
        cases.append(("zero/N=%d" % N, case_zero, dict(N=N)))
        cases.append(("group/N=%d" % N, case_group, dict(N=N, history=False)))
        cases.append(("mag/N=%d" % N, case_mag, dict(N=N, history=False)))
        cases.append(("lens/N=%d" % N, case_lens, dict(N=N)))
        cases.append(("twostep/N=%d" % N, case_two, dict(N=N, unit=False)))
        cases.append(("twostep-unit/N=%d" % N, case_two, dict(N=N, unit=True)))
    for N in ([2] if tier == "quick" else [2, 4]):
        cases.append(("group-after-history/N=%d" % N, case_group, dict(N=N, history=True)))
        cases.append(("mag-after-history/N=%d" % N, case_mag, dict(N=N, history=True)))
    return cases


if __name__ == "__main__":
    sys.exit(harness.main("C11", build_cases, FILES))
