"""C19  Empirical estimators implement their definitions.

Real functions executed symbolically: slopecovariance.calculate_structure_function (symbolic phase,
numpy.empty = arbitrary values), temporal_ps.calc_slope_temporalps (numpy.fft.fft = exact DFT stub) and
temporal_ps.get_tps_time_axis (symbolic frame rate).
"""
import sys

from .common import *  # noqa: F401,F403
from .common import numpy, z3, core, npx, harness, Sym, St, Fr, z, var, symarr, eqs, conj, all_eq

FILES = ["aotools/turbulence/slopecovariance.py", "aotools/turbulence/temporal_ps.py"]


def _mods():
    import aotools.turbulence.slopecovariance as sc
    import aotools.turbulence.temporal_ps as tp
    return sc, tp


# ------------------------------------------------------------------ structure function
def sf_oracle(phase, xm, step):
    phase = numpy.asarray(phase, dtype=object)
    nr, nc = phase.shape
    out = [Sym(0)]
    for j in range(1, xm):
        lag = j * step
        acc = Sym(0)
        cnt = 0
        for r in range(nr - lag):
            for c in range(nc):
                d = phase[r, c] - phase[r + lag, c]
                acc = acc + d * d
                cnt += 1
        out.append(acc / cnt if cnt else None)
    return out


def replay_sf(phase, nb, step):
    sc, _ = _mods()
    phase = numpy.asarray(phase, dtype=float)
    # numpy.empty returns arbitrary memory; on the real code that is modelled by poisoning numpy.empty for
    # the duration of the replay, so that an entry the function never writes shows up deterministically

    class Poison:
        def __getattr__(self, k):
            return getattr(numpy, k)

        @staticmethod
        def empty(shape, dtype=float, **kw):
            a = numpy.empty(shape, dtype=dtype)
            a.fill(12345.678)
            return a
    old = sc.numpy
    sc.numpy = Poison()
    try:
        got = sc.calculate_structure_function(phase.copy(), nbOfPoint=nb, step=step)
    finally:
        sc.numpy = old
    nr, nc = phase.shape
    want = [0.0]
    st = 1 if step is None else int(step)
    for j in range(1, len(got)):
        lag = j * st
        want.append(float(numpy.mean((phase[:nr - lag] - phase[lag:]) ** 2)))
    want = numpy.array(want)
    bad = len(got) != len(want) or not numpy.allclose(got, want, rtol=1e-9, atol=1e-12)
    return bool(bad), dict(what="calculate_structure_function differs from the mean squared difference at lag j*step (0 at lag 0)",
                           phase=phase, nbOfPoint=nb, step=step, got=got, want=want)


def case_sf(ctx, shape, nb, step):
    sc, _ = _mods()
    phase = symarr("p", shape)
    ctx.encoded(sc.calculate_structure_function)
    ctx.bounds.update(shape=list(shape), nbOfPoint=nb, step=step, phase="symbolic real")
    with npx.symbolic(sc):
        sf = numpy.asarray(sc.calculate_structure_function(phase, nbOfPoint=nb, step=step), dtype=object)
    ctx.paths += 1
    st = 1 if step is None else int(step)
    nbp = shape[1] / 4 if nb is None else nb
    xm = int(min(nbp, shape[1] / st - 1))
    rp = lambda m: replay_sf(m(phase), nb, step)
    ctx.fallback = rp
    ctx.prove("length = min(nbOfPoint, shape[1]/step - 1)", [], z3.BoolVal(len(sf) == xm), replay=rp, axioms=False)
    want = sf_oracle(phase, len(sf), st)
    for j in range(len(sf)):
        if want[j] is None:
            continue
        ctx.prove("entry %d = mean squared difference at lag %d (0 at lag 0)" % (j, j * st), [], conj(eqs(sf[j], want[j])), replay=rp)
    # ramp of slope a along the first axis: a^2 (j step)^2 ; quadratic in amplitude
    a, b, k = var("a"), var("b"), var("k")
    ramp = numpy.empty(shape, dtype=object)
    for r in range(shape[0]):
        for c in range(shape[1]):
            ramp[r, c] = a * r + b
    with npx.symbolic(sc):
        sr = numpy.asarray(sc.calculate_structure_function(core.obj(ramp), nbOfPoint=nb, step=step), dtype=object)
        sk = numpy.asarray(sc.calculate_structure_function(core.obj(phase * k), nbOfPoint=nb, step=step), dtype=object)
    for j in range(1, len(sr)):
        if want[j] is None:
            continue
        ctx.prove("ramp of slope a: entry %d = a^2 (j step)^2" % j, [], conj(eqs(sr[j], a * a * (j * st) ** 2)),
                  replay=lambda m: replay_sf(numpy.outer(numpy.arange(shape[0]), numpy.ones(shape[1])) * m(a) + m(b), nb, step), witness_terms=dict(a=a, b=b))
        ctx.prove("quadratic in amplitude: entry %d" % j, [], conj(eqs(sk[j], sf[j] * k * k)), replay=rp)
    if len(sf) > 1:
        ctx.prove("guard: lag-1 entry equal to lag-2 definition is refutable", [], conj(eqs(sf[1], sf_oracle(phase, 3, st)[2])) if shape[0] > 2 * st else z3.BoolVal(False),
                  expect="sat", kind="sensitivity")
    dv = rand_real(rng_for("sf%s" % (shape,)), shape)
    ev = evaluate(sf[1:], assign_of(phase, dv)) if len(sf) > 1 else None
    if ev is not None:
        ctx.validate("calculate_structure_function[1:]", ev, lambda: sc.calculate_structure_function(dv.copy(), nbOfPoint=nb, step=step)[1:])


# ------------------------------------------------------------------ temporal power spectrum
def replay_tps(data):
    _, tp = _mods()
    data = numpy.asarray(data, dtype=float)
    m, e = tp.calc_slope_temporalps(data.copy())
    n = data.shape[-2]
    F = numpy.fft.fft(data, axis=-2)[..., :int(n / 2), :]
    want = (numpy.abs(F) ** 2).mean(-1)
    werr = (numpy.abs(F) ** 2).std(-1) / numpy.sqrt(data.shape[-1])
    bad = m.shape != want.shape or not numpy.allclose(m, want, rtol=1e-9, atol=1e-12) or not numpy.allclose(e, werr, rtol=1e-9, atol=1e-12)
    return bool(bad), dict(what="calc_slope_temporalps differs from mean over sub-apertures of |DFT along frames|^2 (error = std/sqrt(n))",
                           slopes=data, got=m, want=want, got_err=e, want_err=werr)


def _lowdim_values(data, m):
    try:
        a, b = float(m(var("sa"))), float(m(var("sb")))
    except Exception:
        a, b = 1.0, 0.5
    if a == 0 and b == 0:
        a, b = 1.0, 0.5
    out = numpy.empty(data.shape, dtype=float)
    for i in numpy.ndindex(*data.shape):
        out[i] = float(harness.Evaluator({"sa": a, "sb": b}, harness.default_ufs())(Sym.lift(data[i])).real)
    return out


def case_tps(ctx, shape, lowdim=False):
    _, tp = _mods()
    data = symarr("s", shape)
    if lowdim:
        # long frame axis: the slopes are a u + b v with two symbolic amplitudes and fixed small-integer patterns u, v
        # (keeps every obligation a polynomial in two variables)
        a_, b_ = var("sa"), var("sb")
        rng = rng_for("c19tps%s" % (shape,))
        pat = numpy.empty(shape, dtype=object)
        for i in numpy.ndindex(*shape):
            pat[i] = a_ * rng.randint(-3, 3) + b_ * rng.randint(-3, 3)
        data = core.obj(pat)
        ctx.bounds.update(slopes="a u + b v, amplitudes a, b symbolic, u, v fixed integer patterns")
    k = var("k")
    n = shape[-2]
    ns = shape[-1]
    ctx.encoded(tp.calc_slope_temporalps)
    ctx.bounds.update(shape=list(shape), slopes="symbolic real")
    rp = lambda m: replay_tps(numpy.asarray(m(data), dtype=float) if not lowdim else _lowdim_values(data, m))
    ctx.fallback = rp

    def go():
        # under exploration: a decision the function takes on slope VALUES (e.g. treating all-zero columns apart) forks
        with npx.symbolic(tp):
            return tp.calc_slope_temporalps(data), tp.calc_slope_temporalps(core.obj(data * k))
    paths, ex = core.run_paths(go, [z(k.re) > 0], max_paths=64)
    ctx.explored(ex, len(paths))
    first = None
    for pi, pth in enumerate(paths):
        hyp = list(pth.pc)
        tag = "" if pi == 0 else " [path%d]" % pi
        if pth.exc is not None:
            ctx.prove("calc_slope_temporalps raises %s%s" % (type(pth.exc).__name__, tag), hyp, z3.BoolVal(False), replay=rp, axioms=False)
            continue
        (mean_tps, tps_err), (mk, ek) = pth.out
        if first is None:
            first = numpy.asarray(mean_tps, dtype=object)
        mean_tps = numpy.asarray(mean_tps, dtype=object)
        F = npx.dft_axis(data, axis=-2)
        half = int(n / 2)
        want = numpy.empty(shape[:-2] + (half,), dtype=object)
        sq = numpy.empty(shape[:-2] + (half, ns), dtype=object)
        for idx in numpy.ndindex(*want.shape):
            acc = Sym(0)
            for s in range(ns):
                v = Sym.lift(F[idx + (s,)]).abs2()
                sq[idx + (s,)] = v
                acc = acc + v
            want[idx] = acc / ns
        if mean_tps.shape != want.shape:
            ctx.prove("output shape (..., n_frames/2)" + tag, hyp, z3.BoolVal(False), replay=rp, axioms=False)
            continue
        ctx.prove("mean spectrum = sub-aperture mean of |DFT along frames|^2" + tag, hyp, all_eq(mean_tps, want), replay=rp, timeout_ms=60000)
        ctx.prove("quadratic in amplitude" + tag, hyp + [z(k.re) > 0], all_eq(numpy.asarray(mk, dtype=object), mean_tps * k * k), replay=rp, timeout_ms=60000)
        # error term: std over sub-apertures / sqrt(n_subaps):  err^2 * ns = population variance of |F|^2
        terr = numpy.asarray(tps_err, dtype=object)
        # split at the square-root cut-point: (1) the argument handed to sqrt is the population variance of |F|^2
        # (pure polynomial identity), (2) err^2 * ns = (that sqrt)^2 and err >= 0 (only the sqrt axioms)
        g1, g2 = [], []
        for idx in numpy.ndindex(*want.shape):
            var_ = Sym(0)
            for s in range(ns):
                d = sq[idx + (s,)] - want[idx]
                var_ = var_ + d * d
            var_ = var_ / ns
            e = Sym.lift(terr[idx])
            names = set()
            core._consts(z(e.re), names)
            roots = [nm for nm in names if nm.startswith("sq!") and St.sem.get(nm, ("",))[0] == "sqrt"
                     and not z3.is_rational_value(z3.simplify(St.sem[nm][1]))]
            if len(roots) != 1:
                # no single square-root cut-point to split at (other code shape): the semantic statement in one query
                g2 += eqs(e * e * ns, var_)
                g2.append(z(e.re) >= 0)
                continue
            root = z3.Real(roots[0])
            g1.append(St.sem[roots[0]][1] == z(var_.re))
            g2.append(z(e.re) * z(e.re) * ns == root * root)
            g2.append(z(e.re) >= 0)
        ctx.prove("error term: the quantity under the square root is the variance over sub-apertures" + tag, hyp, conj(g1), replay=rp, timeout_ms=60000, axioms=False)
        ctx.prove("error term = sqrt(variance) / sqrt(n_subaps)" + tag, hyp, conj(g2), replay=rp, timeout_ms=60000)
    # a pure sinusoid at bin k0 peaks at bin k0
    amp = var("amp")
    for k0 in (range(1, half) if not lowdim else sorted({1, half - 1})):
        sig = numpy.empty(shape, dtype=object)
        for idx in numpy.ndindex(*shape):
            t = idx[-2]
            sig[idx] = amp * npx.twiddle(n, k0 * t).real
        with npx.symbolic(tp):
            ms, _ = tp.calc_slope_temporalps(core.obj(sig))
        ms = numpy.asarray(ms, dtype=object)
        g = []
        for idx in numpy.ndindex(*ms.shape):
            if idx[-1] != k0:
                g.append(z(Sym.lift(ms[idx[:-1] + (k0,)]).re) > z(Sym.lift(ms[idx]).re))
        ctx.prove("pure sinusoid at bin %d peaks at bin %d" % (k0, k0), [z(amp.re) != 0], conj(g),
                  replay=lambda m, k0=k0: _replay_sin(shape, k0, m(amp)), witness_terms=dict(amp=amp), timeout_ms=60000 if not lowdim else 20000)
    if lowdim:
        asg = {"sa": 0.75, "sb": -1.25}
        dv = numpy.real(evaluate(data, asg))
    else:
        dv = rand_real(rng_for("tps%s" % (shape,)), shape)
        asg = assign_of(data, dv)
    if first is not None and len(paths) == 1:
        ctx.validate("calc_slope_temporalps mean", evaluate(first, asg), lambda: tp.calc_slope_temporalps(dv.copy())[0])


def _replay_sin(shape, k0, amp):
    _, tp = _mods()
    n = shape[-2]
    t = numpy.arange(n)
    sig = numpy.zeros(shape)
    sig[...] = (amp * numpy.cos(2 * numpy.pi * k0 * t / n))[:, None]
    m, _ = tp.calc_slope_temporalps(sig)
    pk = numpy.argmax(m, axis=-1)
    return bool(numpy.any(pk != k0)), dict(what="sinusoid peak bin", k0=k0, amp=amp, spectrum=m)


def case_axis(ctx, n):
    _, tp = _mods()
    fr = var("frame_rate")
    pre = [z(fr.re) > 0]
    ctx.encoded(tp.get_tps_time_axis)
    ctx.bounds.update(n_frames=n, frame_rate="symbolic > 0")
    with npx.symbolic(tp):
        ax = numpy.asarray(tp.get_tps_time_axis(fr, n), dtype=object)
    ctx.paths += 1
    want = numpy.array([fr * k / n for k in range(int(n / 2))], dtype=object)
    rp = lambda m: _replay_axis(n, m(fr))
    ctx.fallback = rp
    ctx.prove("frequency axis = k*frame_rate/n_frames, k < n/2", pre, all_eq(ax, want) if ax.shape == want.shape else z3.BoolVal(False),
              replay=rp, witness_terms=dict(frame_rate=fr))
    # no shared state: an axis handed out earlier and edited by the caller does not change later axes
    with npx.symbolic(tp):
        first = tp.get_tps_time_axis(fr, n)
        if numpy.size(first):
            first *= 2
        second = tp.get_tps_time_axis(fr, n)
    ctx.prove("axis requested again after the caller scaled the first one is unchanged (fresh array)", pre,
              z3.And(z3.BoolVal(first is not second or not numpy.size(first)), all_eq(numpy.asarray(second, dtype=object), want) if numpy.shape(second) == want.shape else z3.BoolVal(False)),
              replay=lambda m: harness.pristine_call(_replay_axis_fresh, n, m(fr)), witness_terms=dict(frame_rate=fr))


def _replay_axis_fresh(n, fr):
    _, tp = _mods()
    a = tp.get_tps_time_axis(fr, n)
    keep = numpy.array(a)
    if a.size:
        a *= 2
    b = tp.get_tps_time_axis(fr, n)
    return bool(not numpy.array_equal(b, keep)), dict(what="get_tps_time_axis returns a shared array: editing one result changes the next", first=keep, second=b)


def _replay_axis(n, fr):
    _, tp = _mods()
    ax = tp.get_tps_time_axis(fr, n)
    want = numpy.arange(int(n / 2)) * fr / n
    bad = ax.shape != want.shape or not numpy.allclose(ax, want, rtol=1e-12, atol=0)
    return bool(bad), dict(what="frequency axis is not k*frame_rate/n_frames", n_frames=n, frame_rate=fr, got=ax, want=want)


def build_cases(tier):
    cases = []
    sfs = [((4, 4), None, None), ((4, 4), 3, 1), ((6, 6), 3, 2), ((6, 4), 2, 1), ((5, 8), None, None), ((8, 8), 3, 2)]
    if tier == "thorough":
        sfs += [((8, 8), None, None), ((8, 8), 4, 1), ((9, 9), 3, 3), ((8, 8), 3, 3), ((6, 12), 3, 1), ((12, 12), 3, 4), ((7, 6), 3, 2)]
    for shape, nb, step in sfs:
        cases.append(("sf/%dx%d/nb=%s/step=%s" % (shape[0], shape[1], nb, step), case_sf, dict(shape=shape, nb=nb, step=step)))
    tps = [(2, 2), (4, 2), (4, 3), (2, 4, 2), (3, 2), (13, 1)]      # 13 frames: the smallest length that is not a "fast" FFT size
    if tier == "thorough":
        tps += [(6, 2), (8, 2), (5, 2), (2, 2, 4, 2), (3, 3, 1)]
    for shape in tps:
        cases.append(("tps/%s" % "x".join(map(str, shape)), case_tps, dict(shape=shape, lowdim=shape[-2] > 8)))
    for n in ([2, 3, 4, 5, 8, 9] if tier == "quick" else list(range(1, 17)) + [31, 32, 100, 101]):
        cases.append(("axis/n=%d" % n, case_axis, dict(n=n)))
    return cases


if __name__ == "__main__":
    sys.exit(harness.main("C19", build_cases, FILES))
