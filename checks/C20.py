"""C20  Library calls are pure: arguments are never modified, no hidden state.

For every public function the engine can execute (list printed in the evidence), on symbolic array
arguments and on every feasible path:
  (a) every array argument is term-identical (same shape, same element terms) after the call;
  (b) calling again with equal arguments returns the same terms, also after the caller has overwritten the
      first result in place (no result is shared mutable state, e.g. a memoised array);
  (c) stack / batch results equal the single-item results (functions with leading batch axes).
Unexecutable (foreign kernels): zoom (interp2d), GCTM (L-BFGS-B), make_kl / gkl_* (eigh), plotting.
"""
import sys

from .common import *  # noqa: F401,F403
from .common import numpy, z3, core, npx, harness, Sym, St, Fr, z, var, symarr, eqs, conj, all_eq, same_terms

FILES = ["aotools/image_processing/centroiders.py", "aotools/image_processing/contrast.py", "aotools/image_processing/psf.py",
         "aotools/interpolation.py", "aotools/fouriertransform.py", "aotools/opticalpropagation.py",
         "aotools/turbulence/phasescreen.py", "aotools/turbulence/slopecovariance.py", "aotools/functions/zernike.py",
         "aotools/functions/pupil.py", "aotools/wfs/wfslib.py", "aotools/turbulence/atmos_conversions.py",
         "aotools/turbulence/temporal_ps.py", "aotools/turbulence/turb.py", "aotools/astronomy/_astronomy.py",
         "aotools/turbulence/profile_compression.py", "aotools/functions/karhunenLoeve.py"]

SKIPPED = ["interpolation.zoom (interp2d: removed from SciPy, FITPACK)", "interpolation.zoom_rbs (FITPACK; contract-level only, C16)",
           "profile_compression.GCTM (scipy.optimize.minimize)", "profile_compression.optimal_grouping (global RNG restarts; C18)",
           "functions.karhunenLoeve.make_kl / gkl_basis / gkl_sfi / set_pctr / pcgeom / pol2car (eigh results, map_coordinates); gkl_fcom is executed with arbitrary eigh outputs for the purity claim only", "temporal_ps.plot_tps / fit_tps (matplotlib, COBYLA)",
           "functions.zernike mode generators if numpy.math is missing"]


def M(name):
    import importlib
    return importlib.import_module("aotools." + name)


def pos(arr):
    return [z(Sym.lift(e).re) > 0 for e in numpy.asarray(arr, dtype=object).flat if not Sym.lift(e).isconc()]


def nn(arr):
    return [z(Sym.lift(e).re) >= 0 for e in numpy.asarray(arr, dtype=object).flat if not Sym.lift(e).isconc()]


# ------------------------------------------------------------------ the call specifications
# name -> (module names to rebind, function path, builder) ; builder() -> (args, kwargs, preconditions)
def specs(tier):
    S = {}
    half = Fr(1, 2)

    def img(shape, name="p"):
        return symarr(name, shape)

    def add(name, mods, fn, build, batch=None, light=False, concrete=None, history=None):
        S[name] = dict(mods=mods, fn=fn, build=build, batch=batch, light=light, concrete=concrete, history=history)
    C = "image_processing.centroiders"
    add("centre_of_gravity 2-D thr=0", [C], C + ".centre_of_gravity", lambda: ([img((2, 2))], {}, nn(img((2, 2))) + [z(numpy.sum(img((2, 2))).re) > 0]))
    add("centre_of_gravity 2-D thr=0.3", [C], C + ".centre_of_gravity", lambda: ([img((2, 2))], dict(threshold=Fr(3, 10)), nn(img((2, 2))) + [z(numpy.sum(img((2, 2))).re) > 0]))
    add("centre_of_gravity stack thr=0", [C], C + ".centre_of_gravity", lambda: ([img((2, 1, 2))], {}, pos(img((2, 1, 2)))))
    add("centre_of_gravity stack thr=0.3", [C], C + ".centre_of_gravity", lambda: ([img((2, 1, 2))], dict(threshold=Fr(3, 10)), pos(img((2, 1, 2)))))
    add("brightest_pixel 2-D", [C], C + ".brightest_pixel", lambda: ([img((1, 2)), half], {}, pos(img((1, 2)))))
    add("brightest_pixel stack", [C], C + ".brightest_pixel", lambda: ([img((2, 1, 2)), half], {}, pos(img((2, 1, 2)))))
    add("cross_correlate", [C], C + ".cross_correlate", lambda: ([img((2, 2)), img((2, 2), "r")], dict(padding=1), []))
    # "in any order relative to other calls": the same call before and after OTHER calls (here: a larger frame padded to
    # the same transform size - a kept work buffer would carry its contents over)
    add("cross_correlate 1x1 pad=4 around a 2x2 pad=2 call", [C], C + ".cross_correlate", lambda: ([img((1, 1)), img((1, 1), "r")], dict(padding=4), []),
        history=lambda: [(C + ".cross_correlate", [img((2, 2), "h"), img((2, 2), "g")], dict(padding=2))])
    add("correlation_centroid 1x2 pad=2 around a 2x4 pad=1 and a 1x4 call", [C], C + ".correlation_centroid",
        lambda: ([img((1, 2)), img((1, 2), "r")], dict(padding=2), pos(img((1, 2))) + pos(img((1, 2), "r")) + [z(img((1, 2))[0, 0].re) > z(img((1, 2))[0, 1].re), z(img((1, 2), "r")[0, 0].re) > z(img((1, 2), "r")[0, 1].re)]),
        history=lambda: [(C + ".cross_correlate", [img((2, 4), "h"), img((2, 4), "g")], dict(padding=1)),
                         (C + ".cross_correlate", [img((1, 4), "h"), img((1, 4), "g")], dict(padding=1))])
    add("correlation_centroid 2-D", [C], C + ".correlation_centroid", lambda: ([img((1, 2)), img((1, 2), "r")], dict(padding=2), pos(img((1, 2))) + pos(img((1, 2), "r")) + [z(img((1, 2))[0, 0].re) > z(img((1, 2))[0, 1].re), z(img((1, 2), "r")[0, 0].re) > z(img((1, 2), "r")[0, 1].re)]))
    add("correlation_centroid stack", [C], C + ".correlation_centroid", lambda: ([img((2, 1, 2)), img((1, 2), "r")], dict(padding=2), pos(img((2, 1, 2))) + pos(img((1, 2), "r")) + [z(img((1, 2), "r")[0, 0].re) > z(img((1, 2), "r")[0, 1].re)] + [z(img((2, 1, 2))[f, 0, 0].re) > z(img((2, 1, 2))[f, 0, 1].re) for f in range(2)]))
    add("quadCell", [C], C + ".quadCell", lambda: ([img((2, 2, 2))], {}, []), batch="first")
    K = "image_processing.contrast"
    add("image_contrast", [K], K + ".image_contrast", lambda: ([img((2, 2))], {}, pos(img((2, 2)))))
    add("rms_contrast", [K], K + ".rms_contrast", lambda: ([img((1, 2))], {}, pos(img((1, 2)))))
    P = "image_processing.psf"
    add("azimuthal_average", [P, "functions.pupil"], P + ".azimuthal_average", lambda: ([img((4, 4))], {}, []))
    add("encircled_energy", [P, "functions.pupil"], P + ".encircled_energy", lambda: ([img((4, 4))], dict(eeDiameter=False), nn(img((4, 4))) + [z(numpy.sum(img((4, 4))).re) > 0]))
    I = "interpolation"
    add("binImgs", [I], I + ".binImgs", lambda: ([img((2, 4, 4)), 2], {}, []), batch="first")
    F = "fouriertransform"
    for f in ("ft", "ift"):
        add(f, [F], F + "." + f, (lambda: ([symarr("x", (2, 3), cplx=True), var("d")], {}, [z3.Real("d") > 0])), batch="first")
    for f in ("ft2", "ift2"):
        add(f, [F], F + "." + f, (lambda: ([symarr("x", (2, 2, 2), cplx=True), var("d")], {}, [z3.Real("d") > 0])), batch="first")
    add("rft stack of 3", [F], F + ".rft", (lambda: ([symarr("x", (3, 4)), var("d")], {}, [z3.Real("d") > 0])), batch="first")
    add("ft stack of 3", [F], F + ".ft", (lambda: ([symarr("x", (3, 2), cplx=True), var("d")], {}, [z3.Real("d") > 0])), batch="first")
    for f in ("rft", "irft", "rft2", "irft2"):
        add(f, [F], F + "." + f, (lambda f=f: ([symarr("x", (2, 4) if "2" not in f else (4, 4) if f == "rft2" else (4, 3), cplx=f.startswith("i")), var("d")], {}, [z3.Real("d") > 0])))
    O = "opticalpropagation"
    lam, d1, d2, zz = var("wvl"), var("d1"), var("d2"), var("zz")
    ppre = [z(v.re) > 0 for v in (lam, d1, d2, zz)] + [z(d1.re) != z(d2.re)]
    add("angularSpectrum", [O, F], O + ".angularSpectrum", lambda: ([symarr("U", (2, 2), cplx=True), lam, d1, d2, zz], {}, ppre))
    add("oneStepFresnel", [O, F], O + ".oneStepFresnel", lambda: ([symarr("U", (2, 2), cplx=True), lam, d1, zz], {}, ppre))
    add("twoStepFresnel", [O, F], O + ".twoStepFresnel", lambda: ([symarr("U", (2, 2), cplx=True), lam, d1, d2, zz], {}, ppre))
    add("lensAgainst", [O, F], O + ".lensAgainst", lambda: ([symarr("U", (2, 2), cplx=True), lam, d1, zz], {}, ppre))
    add("phasescreen.ift2", ["turbulence.phasescreen"], "turbulence.phasescreen.ift2", lambda: ([symarr("G", (2, 2), cplx=True), var("d")], {}, [z3.Real("d") > 0]))
    SC = "turbulence.slopecovariance"
    add("structure_function_vk", [SC], SC + ".structure_function_vk", lambda: ([img((2, 2)), var("r0"), var("L0")], {}, pos(img((2, 2))) + [z3.Real("r0") > 0, z3.Real("L0") > 0]))
    KLM = "functions.karhunenLoeve"
    add("stf_vonKarman (Karhunen-Loeve copy)", [KLM], KLM + ".stf_vonKarman", lambda: ([img((2, 2)), var("L0")], {}, pos(img((2, 2))) + [z3.Real("L0") > 0]))
    add("stf_kolmogorov (Karhunen-Loeve copy)", [KLM], KLM + ".stf_kolmogorov", lambda: ([img((2, 2))], {}, pos(img((2, 2)))))
    add("stf_vonKarman_yao", [KLM], KLM + ".stf_vonKarman_yao", lambda: ([img((2, 2)), var("L0")], {}, pos(img((2, 2))) + [z3.Real("L0") > 0]))
    add("structure_function_kolmogorov", [SC], SC + ".structure_function_kolmogorov", lambda: ([img((2, 2)), var("r0")], {}, pos(img((2, 2))) + [z3.Real("r0") > 0]))
    add("calculate_structure_function", [SC], SC + ".calculate_structure_function", lambda: ([img((4, 4))], dict(nbOfPoint=3), []))
    add("mirror_covariance_matrix", [SC], SC + ".mirror_covariance_matrix", lambda: ([_lower(img((3, 3)))], {}, []))
    add("create_tomographic_covariance_reconstructor", [SC], SC + ".create_tomographic_covariance_reconstructor", lambda: ([_symm(img((4, 4))), 1], {}, []))
    add("calculate_wfs_seperations", [SC], SC + ".calculate_wfs_seperations", lambda: ([2, 2, img((2, 2)), img((2, 2), "q")], {}, []))
    add("wfs_covariance", [SC], SC + ".wfs_covariance", lambda: ([1, 2, img((1, 2)), img((2, 2), "q"), var("da"), var("db"), var("r0"), var("L0")], {}, [z3.Real(n) > 0 for n in ("da", "db", "r0", "L0")]))
    add("CovarianceMatrix.make_covariance_matrix", [SC], "!covmat", None)
    Z = "functions.zernike"
    add("zernIndex", [Z], Z + ".zernIndex", lambda: ([7], {}, []))
    add("makegammas", [Z], Z + ".makegammas", lambda: ([2], {}, []))
    PU = "functions.pupil"
    add("circle", [PU], PU + ".circle", lambda: ([var("r"), 3], dict(circle_centre=(var("cx"), var("cy"))), [z3.Real("r") >= 0]))
    add("circle (concrete arguments)", [PU], PU + ".circle", lambda: ([3, 8], {}, []))
    W = "wfs.wfslib"
    add("findActiveSubaps", [W], W + ".findActiveSubaps", lambda: ([2, img((2, 2)), var("thr")], dict(returnFill=True), nn(img((2, 2)))))
    add("computeFillFactor", [W], W + ".computeFillFactor", lambda: ([img((4, 4)), numpy.array([[0, 0], [2, 2]]), 2], {}, []))
    add("make_subaps_2d", [W], W + ".make_subaps_2d", lambda: ([img((2, 2, 3)), numpy.array([[1, 1], [0, 1]])], {}, []))
    A = "turbulence.atmos_conversions"
    for f in ("coherenceTime", "isoplanaticAngle", "rytov_variance"):
        add(f, [A], A + "." + f, lambda: ([img((2, 2), "c"), img((2, 2), "h"), var("lam")], {}, pos(img((2, 2), "c")) + pos(img((2, 2), "h")) + [z3.Real("lam") > 0]))
    add("r0_from_slopes", [A], A + ".r0_from_slopes", lambda: ([img((1, 1, 3), "s"), var("lam"), var("d")], {}, [z3.Real("lam") > 0, z3.Real("d") > 0, z(img((1, 1, 3), "s").var(axis=-1)[0, 0].re) > 0]))
    T = "turbulence.temporal_ps"
    add("calc_slope_temporalps", [T], T + ".calc_slope_temporalps", lambda: ([img((2, 4, 2), "s")], {}, []), batch="first")
    add("get_tps_time_axis", [T], T + ".get_tps_time_axis", lambda: ([var("fr"), 6], {}, [z3.Real("fr") > 0]))
    TU = "turbulence.turb"
    add("phase_covariance", [TU], TU + ".phase_covariance", lambda: ([img((2, 2), "r"), var("r0"), var("L0")], {}, pos(img((2, 2), "r")) + [z3.Real("r0") > 0, z3.Real("L0") > 0]))
    add("phase_covariance (float32 separations)", [TU], TU + ".phase_covariance", lambda: ([_f32arr(), var("r0"), var("L0")], {}, [z3.Real("r0") > 0, z3.Real("L0") > 0]),
        light=True, concrete=lambda: ([numpy.array([[0, 0.5], [1, 2]], dtype=numpy.float32), 0.2, 25.0], {}))
    AS = "astronomy._astronomy"
    add("photons_per_band", [AS], AS + ".photons_per_band", lambda: ([var("mag"), img((2, 2), "m"), var("ps"), var("t")], {}, []))
    add("photons_per_mag", [AS], AS + ".photons_per_mag", lambda: ([var("mag"), img((2, 2), "m"), var("ps"), var("wb"), var("t")], {}, []))
    PC = "turbulence.profile_compression"
    add("equivalent_layers", [PC], PC + ".equivalent_layers", lambda: ([_heights(3), img((3,), "c"), 2], dict(w=img((3,), "w")), pos(img((3,), "c")) + pos(img((3,), "w"))))
    KLM = "functions.karhunenLoeve"
    add("gkl_fcom (eigh outputs arbitrary)", [KLM], KLM + ".gkl_fcom", lambda: ([Fr(1, 4), _kern(), 2], {}, []), light=True, concrete=_real_kernel)
    add("piston_orth", [KLM], KLM + ".piston_orth", lambda: ([3], {}, []))
    FN = "functions._functions"
    add("gaussian2d", [FN], FN + ".gaussian2d", lambda: ([2, var("w")], dict(amplitude=var("amp")), [z3.Real("w") > 0]))
    return S


def _lower(a):
    a = a.copy()
    for i in range(a.shape[0]):
        for j in range(i + 1, a.shape[1]):
            a[i, j] = Sym(0)
    return a


def _symm(a):
    a = a.copy()
    for i in range(a.shape[0]):
        for j in range(i + 1, a.shape[1]):
            a[i, j] = a[j, i]
    return a


def _f32arr():
    """a concrete separation matrix that is ALREADY single precision (numpy.float32(a) is then `a` itself)"""
    a = core.obj(numpy.array([[0, 0.5], [1, 2]], dtype=float))
    a._is_f32 = True
    return a


def _real_kernel():
    """a genuine kernel cube for the replay on the real code (the symbolic one has arbitrary eigh outputs)"""
    kl = M("functions.karhunenLoeve")
    ri, nr = 0.25, 8
    return [ri, kl.gkl_kernel(ri, nr, kl.gkl_radii(ri, nr)), 6], {}


def _kern():
    k = symarr("K", (2, 2, 3))
    for t in range(3):
        k[0, 1, t] = k[1, 0, t]
    return k


def _heights(n):
    h = symarr("h", (n,))
    return h


def _resolve(path):
    mod, fn = path.rsplit(".", 1)
    return getattr(M(mod), fn)


# ------------------------------------------------------------------ snapshots of (possibly nested) arguments
def arrays_in(x, path=""):
    if isinstance(x, numpy.ndarray):
        yield path, x
    elif isinstance(x, (list, tuple)):
        for i, e in enumerate(x):
            yield from arrays_in(e, "%s[%d]" % (path, i))
    elif isinstance(x, dict):
        for k, e in x.items():
            yield from arrays_in(e, "%s[%r]" % (path, k))


def snapshot(x):
    return [(p, a, a.shape, [e for e in a.flat], str(a.dtype)) for p, a in arrays_in(x)]


def deep_copy(x):
    if isinstance(x, numpy.ndarray):
        return x.copy()
    if isinstance(x, list):
        return [deep_copy(e) for e in x]
    if isinstance(x, tuple):
        return tuple(deep_copy(e) for e in x)
    if isinstance(x, dict):
        return {k: deep_copy(v) for k, v in x.items()}
    return x


def flat_result(r):
    out = []
    if isinstance(r, numpy.ndarray):
        out.append(numpy.asarray(r, dtype=object) if r.dtype == object else r)
    elif isinstance(r, (list, tuple)):
        for e in r:
            out += flat_result(e)
    elif r is not None:
        out.append(numpy.array(r, dtype=object) if isinstance(r, Sym) else numpy.asarray(r))
    return out


def refresh_in_place(x):
    """the caller reuses its own buffers: every array argument gets new contents in place (2 v + (k+1)/7 for the
    k-th element), same objects, same shapes and dtypes.  Returns True if anything was refreshed."""
    done = False
    if isinstance(x, numpy.ndarray):
        if x.size and x.dtype.kind in "fcO" and x.flags.writeable:
            flat = x.reshape(-1)
            for k in range(flat.size):
                flat[k] = flat[k] * 2 + (Fr(k + 1, 7) if x.dtype == object else (k + 1) / 7.0)
            done = True
    elif isinstance(x, (list, tuple)):
        for e in x:
            done = refresh_in_place(e) or done
    elif isinstance(x, dict):
        for e in x.values():
            done = refresh_in_place(e) or done
    return done


def poison(r):
    if isinstance(r, numpy.ndarray) and r.size:
        try:
            r.flat[0] = Sym(987654321) if r.dtype == object else 987654321
        except Exception:
            pass
    elif isinstance(r, list):
        if r:
            for e in r:
                poison(e)
            try:
                r[-1] = 987654321
            except Exception:
                pass
    elif isinstance(r, tuple):
        for e in r:
            poison(e)


def res_equal_goal(a, b):
    fa, fb = flat_result(a), flat_result(b)
    if len(fa) != len(fb):
        return z3.BoolVal(False)
    g = []
    for x, y in zip(fa, fb):
        if x.shape != y.shape:
            return z3.BoolVal(False)
        if x.dtype != object and y.dtype != object:
            if not numpy.array_equal(x, y):
                return z3.BoolVal(False)
            continue
        g += eqs(numpy.asarray(x, dtype=object), numpy.asarray(y, dtype=object))
    return conj(g)


# ------------------------------------------------------------------ covariance-matrix object (arguments are lists of arrays)
def covmat_build():
    d = [var("d0"), var("d1")]
    masks = [numpy.ones((1, 2)), numpy.ones((1, 2))]
    gs = symarr("gs", (2, 2))
    alt = [var("H0"), 0]
    wv = [var("w0"), var("w1")]
    pre = [z3.Real(n) > 0 for n in ("d0", "d1", "H0", "w0", "w1", "Dt", "h0", "r00", "L00")] + [z3.Real("H0") > z3.Real("h0")]
    args = [2, masks, var("Dt"), d, alt, gs, wv, 1, [var("h0")], [var("r00")], [var("L00")]]
    return args, {}, pre


# ------------------------------------------------------------------ replay (real code, real numpy)
def replay_spec(name, values):
    """concrete replay of a purity claim: the solver's witness values for the symbolic inputs (generic
    seeded values for anything the model leaves open)"""
    S = specs("quick")
    sp = S[name]
    rng = rng_for("c20" + name)
    args, kwargs = concrete_args(name, rng, values or {})
    if sp["fn"] == "!covmat":
        sc = M("turbulence.slopecovariance")
        before = deep_copy(args)
        cm = sc.CovarianceMatrix(*args)
        r1 = cm.make_covariance_matrix().copy()
        r2 = cm.make_covariance_matrix().copy()
        changed = not _same_conc(before, args)
        diff = not numpy.array_equal(r1, r2)
        return changed or diff, dict(what="CovarianceMatrix: arguments modified=%s, rebuild differs=%s" % (changed, diff))
    fn = _resolve(sp["fn"])
    hist_bad = False
    if sp.get("history"):
        r0 = deep_copy(fn(*deep_copy(args), **deep_copy(kwargs)))
        for hf, ha, hk in sp["history"]():
            ca = [(numpy.random.RandomState(7).random_sample(a.shape) + 0.5) if isinstance(a, numpy.ndarray) else a for a in ha]
            _resolve(hf)(*ca, **hk)
        hist_bad = not _res_close(r0, fn(*deep_copy(args), **deep_copy(kwargs)))
        if hist_bad:
            return True, dict(what="%s: the result differs after other calls (frames of other sizes in between)" % name,
                              arguments=[numpy.asarray(a).tolist() if isinstance(a, numpy.ndarray) else repr(a) for a in args])
    a1 = deep_copy(args)
    k1 = deep_copy(kwargs)
    r1 = fn(*a1, **k1)
    changed = not _same_conc(a1, args) or not _same_conc(k1, kwargs)
    r1c = deep_copy(r1)
    r2 = fn(*deep_copy(args), **deep_copy(kwargs))
    alias = any(x is y for x in _objs(r1) for y in _objs(r2))
    poison(r1)
    r3 = fn(*deep_copy(args), **deep_copy(kwargs))
    diff = not _res_close(r2, r3) or not _res_close(r1c, r2)
    stale = False
    if not changed:
        try:
            fn(*a1, **k1)
        except Exception:
            pass
    if not changed and refresh_in_place((a1, k1)):
        a5, k5 = deep_copy(a1), deep_copy(k1)
        try:
            r4 = deep_copy(fn(*a1, **k1))
            r5 = fn(*a5, **k5)
            stale = not _res_close(r4, r5)
        except Exception:
            stale = False
    diff = diff or stale
    batch_bad = False
    if sp.get("batch") == "first" and isinstance(args[0], numpy.ndarray):
        full = flat_result(fn(*deep_copy(args), **deep_copy(kwargs)))
        for f in range(args[0].shape[0]):
            one = flat_result(fn(args[0][f].copy(), *deep_copy(args[1:]), **deep_copy(kwargs)))
            for x, y in zip(full, one):
                x, y = numpy.asarray(x), numpy.asarray(y)
                item = x[:, f] if name == "quadCell" else (x[f] if x.shape[1:] == y.shape else None)
                if item is None or not numpy.allclose(item, y, rtol=1e-10, atol=1e-12):
                    batch_bad = True
    return bool(changed or diff or alias or batch_bad), dict(what="%s: arguments modified=%s, repeated call differs=%s (after the caller refreshed its buffers in place: %s), results share storage=%s, stack differs from per-item calls=%s" % (name, changed, diff, stale, alias, batch_bad),
                                                arguments=[numpy.asarray(a).tolist() if isinstance(a, numpy.ndarray) else repr(a) for a in args])


def _objs(r):
    if isinstance(r, (numpy.ndarray, list)):
        yield r
    if isinstance(r, (list, tuple)):
        for e in r:
            yield from _objs(e)


def _same_conc(a, b):
    la, lb = list(arrays_in(a)), list(arrays_in(b))
    if len(la) != len(lb):
        return False
    for (p, x), (q, y) in zip(la, lb):
        if x.shape != y.shape or x.dtype != y.dtype or not numpy.array_equal(x, y, equal_nan=True):
            return False
    return True


def _res_close(a, b):
    fa, fb = flat_result(a), flat_result(b)
    if len(fa) != len(fb):
        return False
    for x, y in zip(fa, fb):
        x, y = numpy.asarray(x), numpy.asarray(y)
        if x.shape != y.shape:
            return False
        if x.dtype == object or y.dtype == object:
            continue
        if not numpy.array_equal(x, y, equal_nan=True):
            return False
    return True


def concrete_args(name, rng, values=None):
    """concrete counterparts of the symbolic arguments: positive generic values, distinct"""
    S = specs("quick")
    sp = S[name]
    if sp.get("concrete"):
        return sp["concrete"]()
    if sp["fn"] == "!covmat":
        args, kwargs, _ = covmat_build()
    else:
        args, kwargs, _ = sp["build"]()
    cnt = [0]

    def conc(x):
        if isinstance(x, Sym):
            if x.isconc():
                return float(x.re) if x.im == 0 else complex(float(x.re), float(x.im))
            cnt[0] += 1
            base = 0.5 + 0.37 * cnt[0] + rng.randint(0, 3) * 0.01
            if values and z3.is_const(x.re) and x.re.decl().name() in values:
                re = values[x.re.decl().name()]
                if core.is_zero(x.im):
                    return re
                return complex(re, values.get(x.im.decl().name(), 0.0) if z3.is_const(x.im) else 0.0)
            if not core.is_zero(x.im):
                return complex(base, 0.25 + 0.11 * cnt[0])
            if "H0" in str(x.re):
                return 90000.0
            if "h0" in str(x.re):
                return 5000.0
            return base
        if isinstance(x, numpy.ndarray):
            if x.dtype != object:
                return x.copy()
            vals = [conc(Sym.lift(e)) for e in x.flat]
            dt = complex if any(isinstance(v, complex) for v in vals) else float
            return numpy.array(vals, dtype=dt).reshape(x.shape)
        if isinstance(x, list):
            return [conc(e) for e in x]
        if isinstance(x, tuple):
            return tuple(conc(e) for e in x)
        if isinstance(x, Fr):
            return float(x)
        return x
    cargs = [conc(a) for a in args]
    # decreasing rows so that "first pixel brighter" preconditions hold (only when no witness values were given)
    for a in cargs:
        if not values and isinstance(a, numpy.ndarray) and a.dtype == float and a.ndim >= 1 and a.shape[-1] == 2:
            a.sort(axis=-1)
            a[...] = a[..., ::-1]
    return cargs, {k: conc(v) for k, v in kwargs.items()}


# ------------------------------------------------------------------ the case
def case_spec(ctx, name):
    S = specs(ctx.tier)
    sp = S[name]
    mods = [M(m) for m in sp["mods"]]
    St.pow_mode = "float" if "encircled" in name else "alg"
    St.fork_div = "twoStep" in name
    if sp["fn"] == "!covmat":
        return case_covmat(ctx, name, mods)
    fn = _resolve(sp["fn"])
    ctx.encoded(fn)
    args, kwargs, pre = sp["build"]()
    ctx.bounds.update(arguments=[("array%s" % (a.shape,) if isinstance(a, numpy.ndarray) else str(a)) for a in args], kwargs={k: str(v) for k, v in kwargs.items()})
    hist = sp["history"]() if sp.get("history") else None
    if hist:
        ctx.bounds["history"] = ["%s(%s)" % (hf.split(".")[-1], ", ".join(["array%s" % (a.shape,) for a in ha] + ["%s=%s" % kv for kv in hk.items()])) for hf, ha, hk in hist]

    def go():
        with npx.symbolic(*mods):
            r0 = None
            if hist:
                r0 = deep_copy(fn(*deep_copy(args), **deep_copy(kwargs)))
                for hf, ha, hk in hist:
                    _resolve(hf)(*deep_copy(ha), **deep_copy(hk))
            a1, k1 = deep_copy(args), deep_copy(kwargs)
            snap = snapshot((a1, k1))
            r1 = fn(*a1, **k1)
            after = [(p, a, a.shape, [e for e in a.flat], str(a.dtype)) for p, a in arrays_in((a1, k1))]
            r1c = deep_copy(r1)
            if sp["light"]:
                return snap, after, r1c, None, None, False, None, None, r0
            r2 = fn(*deep_copy(args), **deep_copy(kwargs))
            r2c = deep_copy(r2)
            alias = any(x is y for x in _objs(r1) for y in _objs(r2))
            poison(r1)
            r3 = fn(*deep_copy(args), **deep_copy(kwargs))
            r4 = r5 = None
            fn(*a1, **k1)             # (the call just before the caller refreshes its buffers uses these very objects)
            if refresh_in_place((a1, k1)):
                # same argument objects, refreshed in place by the caller, against fresh objects with the same contents
                a5, k5 = deep_copy(a1), deep_copy(k1)
                r4 = deep_copy(fn(*a1, **k1))
                r5 = fn(*a5, **k5)
            return snap, after, r1c, r2c, r3, alias, r4, r5, r0
    paths, ex = core.run_paths(go, pre, max_paths=20000)
    ctx.explored(ex, len(paths))
    vnames = set()
    for t in core.terms_of(numpy.array([e for _, a in arrays_in((args, kwargs)) if a.dtype == object for e in a.flat] +
                                       [a for a in list(args) + list(kwargs.values()) if isinstance(a, Sym)], dtype=object)):
        core._consts(t, vnames)

    def rp_args(m):
        vals = {}
        for nm in vnames:
            try:
                vals[nm] = float(m.frac(z3.Real(nm)))
            except Exception:
                pass
        return harness.pristine_call(replay_spec, name, vals)
    for pi, p in enumerate(paths):
        hyp = pre + p.pc
        if p.exc is not None:
            # an exception is not a purity question; recorded but not an obligation
            ctx.assume("%s: path raising %s not examined" % (name, type(p.exc).__name__))
            continue
        snap, after, r1, r2, r3, alias, r4, r5, r0 = p.out
        if r0 is not None:
            ctx.prove("path%d: the call returns the same before and after other calls (symbolic frames of other sizes in between)" % pi, hyp,
                      res_equal_goal(r0, r1), replay=rp_args, timeout_ms=20000)
        g = []
        for (pa, arr, shp, elems, dt), (pb, arr2, shp2, elems2, dt2) in zip(snap, after):
            if shp != shp2 or dt != dt2 or len(elems) != len(elems2):
                g.append(z3.BoolVal(False))
                continue
            for e1, e2 in zip(elems, elems2):
                if e1 is e2:
                    continue
                if isinstance(e1, Sym) or isinstance(e2, Sym):
                    g += eqs(e1, e2)
                elif e1 != e2:
                    g.append(z3.BoolVal(False))
        ctx.prove("path%d: arguments unchanged (shape, dtype tag, every element)" % pi, hyp, conj(g), replay=rp_args)
        if sp["light"]:
            continue
        ctx.prove("path%d: second call returns the same result" % pi, hyp, res_equal_goal(r1, r2), replay=rp_args, timeout_ms=20000)
        ctx.prove("path%d: results of two calls do not share storage; a call after the first result was overwritten returns the same" % pi,
                  hyp, z3.And(z3.BoolVal(not alias), res_equal_goal(r2, r3)), replay=rp_args, timeout_ms=20000)
        if r4 is not None:
            ctx.prove("path%d: a call with the same argument objects refreshed in place equals the call on new objects with those contents" % pi,
                      hyp, res_equal_goal(r4, r5), replay=rp_args, timeout_ms=20000, replay_on_unknown=True)
    if sp["batch"] == "first" and paths:
        arr = args[0]
        with npx.symbolic(*mods):
            full = fn(*deep_copy(args), **deep_copy(kwargs))
            g = []
            for f in range(arr.shape[0]):
                one = fn(arr[f].copy(), *deep_copy(args[1:]), **deep_copy(kwargs))
                fo = flat_result(full)
                oo = flat_result(one)
                for x, y in zip(fo, oo):
                    x = numpy.asarray(x, dtype=object)
                    y = numpy.asarray(y, dtype=object)
                    item = x[f] if x.shape[1:] == y.shape else numpy.moveaxis(x, -1, 0)[f] if numpy.moveaxis(x, -1, 0).shape[1:] == y.shape else None
                    if name == "quadCell":
                        item = x[:, f]
                    g += eqs(item, y) if item is not None else [z3.BoolVal(False)]
        ctx.prove("batch: per-item result equals the single-item call", pre, conj(g), replay=rp_args, timeout_ms=30000)


def case_covmat(ctx, name, mods):
    sc = mods[0]
    ctx.encoded(sc.CovarianceMatrix.make_covariance_matrix)
    args, kwargs, pre = covmat_build()

    def go():
        with npx.symbolic(*mods):
            a1 = deep_copy(args)
            snap = snapshot(a1)
            cm = sc.CovarianceMatrix(*a1)
            r1 = deep_copy(cm.make_covariance_matrix())
            after = [(p, a, a.shape, [e for e in a.flat], str(a.dtype)) for p, a in arrays_in(a1)]
            r2 = deep_copy(cm.make_covariance_matrix())
            return snap, after, r1, r2
    paths, ex = core.run_paths(go, pre)
    ctx.explored(ex, len(paths))
    rp = lambda m: harness.pristine_call(replay_spec, name, None)
    ctx.fallback = rp
    for pi, p in enumerate(paths):
        if p.exc is not None:
            continue
        snap, after, r1, r2 = p.out
        g = []
        for (pa, arr, shp, elems, dt), (pb, arr2, shp2, elems2, dt2) in zip(snap, after):
            if shp != shp2 or len(elems) != len(elems2):
                g.append(z3.BoolVal(False))
                continue
            for e1, e2 in zip(elems, elems2):
                if e1 is not e2:
                    g += eqs(e1, e2) if (isinstance(e1, Sym) or isinstance(e2, Sym)) else ([] if e1 == e2 else [z3.BoolVal(False)])
        ctx.prove("path%d: constructor/build arguments unchanged" % pi, pre + p.pc, conj(g), replay=rp)
        ctx.prove("path%d: rebuilding returns the same matrix" % pi, pre + p.pc, all_eq(r1, r2), replay=rp, timeout_ms=60000)


def build_cases(tier):
    cases = []
    for name in specs(tier):
        cases.append((name, case_spec, dict(name=name)))
    return cases


if __name__ == "__main__":
    sys.exit(harness.main("C20", build_cases, FILES, notes="functions not executable by the engine (skipped, not claimed): " + "; ".join(SKIPPED)))
