"""C14  Pupil masks and sub-aperture selection are exact geometric indicators.

Real functions executed symbolically, all feasible paths: aotools.functions.pupil.circle (symbolic
radius >= 0 and centre, both origins), aotools.wfs.wfslib.{findActiveSubaps, computeFillFactor,
make_subaps_2d} (symbolic mask values, threshold, slope data).  Per path the solver decides that the
path condition implies the independently written geometric / definitional oracle.
"""
import sys

from .common import *  # noqa: F401,F403
from .common import numpy, z3, core, npx, harness, Sym, St, Fr, z, var, symarr, eqs, conj, all_eq

FILES = ["aotools/functions/pupil.py", "aotools/wfs/wfslib.py"]


def _mods():
    import aotools.functions.pupil as pupil
    import aotools.wfs.wfslib as wfslib
    return pupil, wfslib


# ------------------------------------------------------------------ circle
def indicator(n, r, cx, cy, origin):
    """oracle: pixel (row i, col j) has its centre at (j+1/2, i+1/2) measured from the array corner, or
    from the array middle (minus n/2); inside iff squared distance to (cx, cy) <= r^2"""
    o = Fr(n, 2) if origin == "middle" else Fr(0)
    out = {}
    for i in range(n):
        for j in range(n):
            dx = Sym(Fr(2 * j + 1, 2) - o) - cx
            dy = Sym(Fr(2 * i + 1, 2) - o) - cy
            d2 = dx * dx + dy * dy
            out[(i, j)] = z(d2.re) <= z((r * r).re)
    return out


def replay_circle(n, r, cx, cy, origin):
    """the witness call on the real code: first in a fresh process state, then (the symbolic run re-executes circle
    once per path, i.e. it explores repeated calls) after earlier calls of the same size"""
    pupil, _ = _mods()
    bad, detail = _circle_once(pupil, n, r, cx, cy, origin)
    if bad:
        return bad, detail
    for hist in ([(r, (cx, cy), origin)], [(1.0, (0.3, 0.7), "corner"), (1.0, (0.3, 0.7), "middle")],
                 [(r, (cx, cy), "corner"), (r, (cx, cy), "middle")]):
        for (hr, hc, ho) in hist:
            pupil.circle(hr, n, hc, ho)
        bad, detail = _circle_once(pupil, n, r, cx, cy, origin)
        if bad:
            detail["history"] = "after earlier calls circle(radius, %d, centre, origin) with %s" % (n, hist)
            return bad, detail
    return bad, detail


def _circle_once(pupil, n, r, cx, cy, origin):
    C = pupil.circle(r, n, (cx, cy), origin)
    o = n / 2.0 if origin == "middle" else 0.0
    want = numpy.zeros((n, n))
    amb = False
    for i in range(n):
        for j in range(n):
            d2 = Fr(j + 0.5 - o) - Fr(cx)
            e2 = Fr(i + 0.5 - o) - Fr(cy)
            dist2 = d2 * d2 + e2 * e2
            want[i, j] = 1.0 if dist2 <= Fr(r) * Fr(r) else 0.0
    bad = C.shape != want.shape or bool(numpy.any(C != want))
    return bad, dict(what="circle() differs from the indicator of pixel centres within r of the centre", n=n, r=r, centre=[cx, cy],
                     origin=origin, got=C, want=want)


def case_circle(ctx, n, origin, prefix, bounded=False):
    pupil, _ = _mods()
    r, cx, cy = var("r"), var("cx"), var("cy")
    pre = [z(r.re) >= 0]
    if bounded:
        # radius and centre within a box: code that derives INTEGER quantities from them (window bounds, counts) then has
        # finitely many cases, which are enumerated
        pre += [z(r.re) <= 2, z(cx.re) >= -1, z(cx.re) <= 1, z(cy.re) >= -1, z(cy.re) <= 1]
    ctx.encoded(pupil.circle)
    ctx.bounds.update(n=n, origin=origin, radius="symbolic >= 0", centre="symbolic (cx, cy), any real", split_prefix=str(prefix))

    def go():
        with npx.symbolic(pupil):
            return pupil.circle(r, n, (cx, cy), origin)
    paths, ex = core.run_paths(go, pre, prefix=prefix, **(dict(max_paths=30000) if bounded else {}))
    ctx.explored(ex, len(paths))
    ind = indicator(n, r, cx, cy, origin)
    names = dict(r=r, cx=cx, cy=cy)
    rp = lambda m: replay_circle(n, m(r), m(cx), m(cy), origin)
    ctx.fallback = rp
    for pi, p in enumerate(paths):
        if p.exc is not None:
            ctx.prove("path%d raises %s" % (pi, type(p.exc).__name__), pre + p.pc, z3.BoolVal(False), replay=rp, witness_terms=names, axioms=False)
            continue
        C = numpy.asarray(p.out, dtype=object)
        if C.shape != (n, n):
            ctx.prove("path%d shape" % pi, pre + p.pc, z3.BoolVal(False), replay=rp, witness_terms=names, axioms=False)
            continue
        lits = []
        for i in range(n):
            for j in range(n):
                v = Sym.lift(C[i, j])
                if not v.isconc() or v.re not in (0, 1):
                    lits.append(z3.BoolVal(False))
                else:
                    lits.append(ind[(i, j)] if v.re == 1 else z3.Not(ind[(i, j)]))
        ctx.prove("path%d: mask = indicator of pixel centres within r" % pi, pre + p.pc, conj(lits), replay=rp, witness_terms=names)
    if not prefix or all(prefix):
        ctx.prove("guard: preconditions satisfiable", pre, z3.BoolVal(False), expect="sat", kind="vacuity", axioms=False)
        # validation on the docstring examples and a few seeded ones
        for (rr, nn, cc) in [(1, 5, (0, 0)), (0.8, 4, (0, 0)), (2, 4, (0, 0)), (1, 5, (0.5, 0.5)), (1, 4, (0.5, 0.5))]:
            with npx.symbolic(pupil):
                s = pupil.circle(rr, nn, cc)
            ctx.validate("circle%s" % ((rr, nn, cc),), evaluate(s, {}), lambda rr=rr, nn=nn, cc=cc: pupil.circle(rr, nn, cc))


def case_circle_fresh(ctx):
    """no hidden state: a mask handed out earlier and edited by the caller does not change later masks"""
    pupil, _ = _mods()
    ctx.encoded(pupil.circle)
    ctx.bounds.update(history="call, caller edits the returned mask in place, call again (concrete and symbolic arguments)")
    r, cx = var("r"), var("cx")
    pre = [z(r.re) >= 0]

    def go():
        with npx.symbolic(pupil):
            a = pupil.circle(r, 2, (cx, 0))
            keep = numpy.asarray(a, dtype=object).copy()
            a[...] = 7
            b = pupil.circle(r, 2, (cx, 0))
            c1 = pupil.circle(3, 8)
            k1 = numpy.asarray(c1, dtype=object).copy()
            c1 *= 0.5
            c2 = pupil.circle(3, 8)
            return keep, numpy.asarray(b, dtype=object), a is b, k1, numpy.asarray(c2, dtype=object), c1 is c2
    paths, ex = core.run_paths(go, pre)
    ctx.explored(ex, len(paths))
    rp = lambda m: harness.pristine_call(_replay_fresh)
    ctx.fallback = rp
    for pi, p in enumerate(paths):
        if p.exc is not None:
            continue
        keep, b, same1, k1, c2, same2 = p.out
        ctx.prove("path%d: circle(r, 2, c) after the caller overwrote an earlier result is the same mask, in a new array" % pi, pre + p.pc,
                  z3.And(z3.BoolVal(not same1), all_eq(b, keep)), replay=rp)
        ctx.prove("path%d: circle(3, 8) after the caller scaled an earlier result is the same mask, in a new array" % pi, pre + p.pc,
                  z3.And(z3.BoolVal(not same2), all_eq(c2, k1)), replay=rp)


def _replay_fresh():
    pupil, _ = _mods()
    a = pupil.circle(3, 8)
    keep = a.copy()
    a *= 0.5
    b = pupil.circle(3, 8)
    c = pupil.circle(1.5, 6, (0.5, 0.5), "corner")
    kc = c.copy()
    c[:] = 0
    d = pupil.circle(1.5, 6, (0.5, 0.5), "corner")
    bad = (a is b) or (c is d) or not numpy.array_equal(b, keep) or not numpy.array_equal(d, kc)
    return bool(bad), dict(what="circle() returns shared / stale arrays after the caller edited an earlier result", second_call_sum=float(b.sum()), first_call_sum=float(keep.sum()))


# ------------------------------------------------------------------ findActiveSubaps / computeFillFactor
def cells(shape, subaps):
    """oracle cell bounds: round-half-even of k*spacing, as the documentation's 'grid cells'"""
    xs = shape[0] / float(subaps)
    ys = shape[1] / float(subaps)
    out = []
    for x in range(subaps):
        for y in range(subaps):
            out.append((x, y, int(round(x * xs)), int(round((x + 1) * xs)), int(round(y * ys)), int(round((y + 1) * ys)), x * xs, y * ys))
    return out


def replay_active(shape, subaps, mask, thr):
    _, w = _mods()
    mask = numpy.asarray(mask, dtype=float).reshape(shape)
    coords, fills = w.findActiveSubaps(subaps, mask.copy(), thr, returnFill=True)
    want_c, want_f = [], []
    for (x, y, x1, x2, y1, y2, px, py) in cells(shape, subaps):
        m = mask[x1:x2, y1:y2].mean()
        if m >= thr:
            want_c.append([px, py])
            want_f.append(m)
    want_c = numpy.array(want_c).reshape(-1, 2)
    got_c = numpy.asarray(coords).reshape(-1, 2)
    bad = got_c.shape != want_c.shape or (got_c.size and not numpy.allclose(got_c, want_c)) or not numpy.allclose(fills, want_f)
    return bool(bad), dict(what="findActiveSubaps differs from 'cells with mean >= threshold'", mask=mask, threshold=thr, subaps=subaps,
                           got=got_c, want=want_c, fills=numpy.asarray(fills), want_fills=want_f)


def case_active(ctx, shape, subaps):
    _, w = _mods()
    mask = symarr("m", shape)
    thr = var("thr")
    pre = [z(e.re) >= 0 for e in mask.flat] + [z(e.re) <= 1 for e in mask.flat]
    ctx.encoded(w.findActiveSubaps, w.computeFillFactor)
    ctx.bounds.update(mask_shape=list(shape), subaps=subaps, mask="symbolic values in [0,1]", threshold="symbolic (any real)")
    names = dict(thr=thr)
    rp = lambda m: replay_active(shape, subaps, m(mask), m(thr))
    ctx.fallback = rp

    def go():
        with npx.symbolic(w):
            return w.findActiveSubaps(subaps, mask, thr, returnFill=True)
    paths, ex = core.run_paths(go, pre)
    ctx.explored(ex, len(paths))
    cl = cells(shape, subaps)
    means = []
    for (x, y, x1, x2, y1, y2, px, py) in cl:
        acc = Sym(0)
        cnt = 0
        for i in range(x1, x2):
            for j in range(y1, y2):
                acc = acc + mask[i, j]
                cnt += 1
        means.append(acc / cnt if cnt else None)
    # computeFillFactor takes ONE spacing: the clause is only expressible for square masks (findActiveSubaps: "assumes square")
    multiple = shape[0] % subaps == 0 and shape[1] % subaps == 0 and shape[0] == shape[1]
    for pi, p in enumerate(paths):
        hyp = pre + p.pc
        if p.exc is not None:
            ctx.prove("path%d raises %s" % (pi, type(p.exc).__name__), hyp, z3.BoolVal(False), replay=rp, witness_terms=names, axioms=False)
            continue
        coords, fills = p.out
        coords = numpy.asarray(coords, dtype=object).reshape(-1, 2)
        # which cells does this path claim active?  positions identify cells uniquely
        claimed = {}
        ok_shape = True
        for k in range(len(coords)):
            key = (Sym.lift(coords[k, 0]), Sym.lift(coords[k, 1]))
            if not (key[0].isconc() and key[1].isconc()):
                ok_shape = False
                break
            claimed[(key[0].re, key[1].re)] = k
        lits = []
        order = []
        for ci, (x, y, x1, x2, y1, y2, px, py) in enumerate(cl):
            k = claimed.get((Fr(px), Fr(py)))
            cond = z(means[ci].re) >= z(thr.re)
            if k is None:
                lits.append(z3.Not(cond))
            else:
                order.append(k)
                lits.append(cond)
                lits += eqs(fills[k], means[ci])
        if not ok_shape or len(claimed) != len(coords) or order != sorted(order) or len(order) != len(coords):
            lits.append(z3.BoolVal(False))
        ctx.prove("path%d: returned cells = cells with mean >= threshold (row-major), fills = means" % pi, hyp, conj(lits), replay=rp, witness_terms=names)
        if multiple and len(coords):
            # under its own exploration (any decision computeFillFactor takes on mask VALUES forks), restricted to this path
            def go_ff(coords=coords):
                with npx.symbolic(w):
                    return w.computeFillFactor(mask, coords, shape[0] // subaps)
            fpaths, fex = core.run_paths(go_ff, hyp, max_paths=64)
            ctx.explored(fex, len(fpaths))
            rpf = lambda m: _replay_ff(shape, subaps, m(mask), m(thr))
            for fi, fp in enumerate(fpaths):
                if fp.exc is not None:
                    ctx.prove("path%d/%d: computeFillFactor raises %s" % (pi, fi, type(fp.exc).__name__), hyp + fp.pc, z3.BoolVal(False), replay=rpf, witness_terms=names, axioms=False)
                    continue
                ctx.prove("path%d/%d: computeFillFactor reproduces the fills" % (pi, fi), hyp + fp.pc, all_eq(fp.out, numpy.asarray(fills, dtype=object)),
                          replay=rpf, witness_terms=names)
    ctx.prove("guard: preconditions satisfiable", pre, z3.BoolVal(False), expect="sat", kind="vacuity", axioms=False)
    # validation against the real function
    rng = rng_for("active%s%d" % (shape, subaps))
    mv = rand_real(rng, shape, 0, 4, 4.0)
    for p in paths:
        if p.exc is None and _holds(pre + p.pc, mask, mv, thr, 0.5):
            a = assign_of(mask, mv)
            a["thr"] = 0.5
            cr, fr = w.findActiveSubaps(subaps, mv.copy(), 0.5, returnFill=True)
            ctx.validate("findActiveSubaps fills", evaluate(numpy.asarray(p.out[1], dtype=object), a), fr)
            ctx.validate("findActiveSubaps coords", evaluate(numpy.asarray(p.out[0], dtype=object).reshape(-1, 2), a), numpy.asarray(cr).reshape(-1, 2))


def _holds(pc, mask, mv, thr, tv):
    s = z3.Solver()
    s.add(pc)
    for i in numpy.ndindex(*mask.shape):
        s.add(mask[i].re == z3.RealVal(str(Fr(float(mv[i])))))
    s.add(thr.re == z3.RealVal(str(Fr(tv))))
    return s.check() == z3.sat


def _replay_ff(shape, subaps, mask, thr):
    _, w = _mods()
    mask = numpy.asarray(mask, dtype=float).reshape(shape)
    coords, fills = w.findActiveSubaps(subaps, mask.copy(), thr, returnFill=True)
    if len(coords) == 0:
        return False, dict(note="no active sub-aperture")
    ff = w.computeFillFactor(mask, coords, shape[0] // subaps)
    bad = not numpy.allclose(ff, fills)
    return bool(bad), dict(what="computeFillFactor != fills of findActiveSubaps", mask=mask, threshold=thr, fills=numpy.asarray(fills), recomputed=ff)


# ------------------------------------------------------------------ make_subaps_2d
def replay_scatter(mask, data):
    _, w = _mods()
    mask = numpy.asarray(mask)
    out = w.make_subaps_2d(numpy.asarray(data, dtype=float), mask)
    back = out[:, :, mask == 1]
    bad = back.shape != numpy.shape(data) or not numpy.allclose(back, data) or bool(numpy.any(out[:, :, mask != 1] != 0))
    return bool(bad), dict(what="make_subaps_2d scatter/read-back is not the identity", mask=mask, data=numpy.asarray(data))


def case_scatter(ctx, nx, frames):
    """symbolic 0/1 mask (forks per cell), symbolic slope data"""
    _, w = _mods()
    ctx.encoded(w.make_subaps_2d)
    ctx.bounds.update(nx=nx, frames=frames, mask="every 0/1 mask with exactly the number of ones the data has (all counts)")
    import itertools
    for bits in itertools.product([0, 1], repeat=nx * nx):
      for mdt, layout in ((int, "C"), (bool, "C"), (float, "C"), (int, "F"), (int, "strided")):
        mask = numpy.array(bits).reshape(nx, nx).astype(mdt)          # masks come as int, bool or float arrays
        if layout == "F":
            mask = numpy.asfortranarray(mask)                         # ... column-major (a transposed view, FITS/IDL data)
        elif layout == "strided":
            big = numpy.zeros((2 * nx, 2 * nx), dtype=mdt)            # ... or as a strided view into a larger array
            big[::2, ::2] = mask
            mask = big[::2, ::2]
        ns = int(mask.sum())
        data = symarr("s", (frames, 2, ns))
        with npx.symbolic(w):
            out = w.make_subaps_2d(data, mask)
        ctx.paths += 1
        out = numpy.asarray(out, dtype=object)
        back = out[:, :, mask == 1]
        rest = out[:, :, mask != 1]
        goal = conj(eqs(back, data) + eqs(rest, numpy.zeros(rest.shape)))
        ctx.prove("mask=%s (%s, %s layout): read-back through the mask is the identity, other cells zero" % ("".join(map(str, bits)), numpy.dtype(mdt).name, layout), [], goal,
                  replay=lambda m, mask=mask, data=data: replay_scatter(mask, numpy.asarray(m(data), dtype=float) + 0.25))


def build_cases(tier):
    cases = []
    sizes = [1, 2, 3, 4] if tier == "quick" else [1, 2, 3, 4, 5, 6]
    for n in sizes:
        for origin in ("middle", "corner"):
            bits = 0 if n <= 3 else (4 if n == 4 else (6 if n == 5 else 8))
            for pf in core.prefixes(bits):
                cases.append(("circle/n=%d/%s/split=%s" % (n, origin, "".join("T" if b else "F" for b in pf) or "-"), case_circle,
                              dict(n=n, origin=origin, prefix=pf)))
    cases.append(("circle-bounded/n=2/middle", case_circle, dict(n=2, origin="middle", prefix=(), bounded=True)))
    cases.append(("circle-bounded/n=2/corner", case_circle, dict(n=2, origin="corner", prefix=(), bounded=True)))
    cases.append(("circle/fresh-results", case_circle_fresh, {}))
    act = [((2, 2), 1), ((2, 2), 2), ((3, 3), 2), ((4, 4), 2), ((5, 5), 2), ((3, 3), 3)]
    if tier == "thorough":
        act += [((6, 6), 2), ((6, 6), 3), ((5, 5), 3), ((7, 7), 3), ((4, 6), 2)]
    for shape, sub in act:
        cases.append(("active/mask=%dx%d/subaps=%d" % (shape[0], shape[1], sub), case_active, dict(shape=shape, subaps=sub)))
    cases.append(("scatter/nx=2", case_scatter, dict(nx=2, frames=2)))
    if tier == "thorough":
        cases.append(("scatter/nx=3", case_scatter, dict(nx=3, frames=1)))
    return cases


if __name__ == "__main__":
    sys.exit(harness.main("C14", build_cases, FILES))
