"""symnp.core -- symbolic scalars that live inside real NumPy object arrays.

A ``Sym`` is a complex pair (re, im).  Each part is either an exact ``fractions.Fraction``
(concrete; float literals are taken at the exact rational value of the double) or a z3
``Real`` term.  Two arithmetic modes share the class:

  REAL  z3 real arithmetic with constant folding (QF_NRA + UFs).  `unsat` = holds in exact real
        arithmetic; floating point rounding is outside the claim.
  EUF   every floating operation on a symbolic operand is an uninterpreted function
        (fadd, fmul, ...) so two results are equal only if they are the same term, i.e.
        equal under every interpretation of the operations (IEEE-754 included).

Comparisons return ``SymBool`` whose ``__bool__`` forks through the active ``Explorer``.
Algebraic side conditions (sqrt, rational powers, unit-circle pairs) are kept in a global
definition table; ``axioms_for(terms)`` returns only those in the cone of influence.
"""
import fractions
import math
import numpy
import z3

Fr = fractions.Fraction


class SplitNeeded(RuntimeError):
    """a value-dependent branch met outside any Explorer: the harness re-runs the case once per outcome, with the
    outcome added to every obligation's hypotheses (St.split_assume)"""

    def __init__(self, cond):
        RuntimeError.__init__(self, "symbolic branch outside an Explorer: %s" % cond)
        self.cond = cond


class St:
    split_assume = []
    split_pre = []
    """Engine state (one per process)."""
    mode = "REAL"
    explorer = None
    facts = {}         # decl name -> {term id: axiom} facts about uninterpreted applications (e.g. exp(x) > 0)
    sem = {}           # var name -> semantic tuple for concrete evaluation ('sqrt', arg) ...
    defs = {}          # var name -> (list of z3 axioms, list of z3 terms the axioms mention)
    keys = {}          # canonical key -> Sym  (sqrt / pow / exp sharing)
    absorbed = 0       # number of tiny additive regularisers absorbed
    float_evals = 0    # concrete irrational evaluations done in floating point
    fork_div = False   # fork scalar division on a zero divisor (Python float semantics)
    typed_casts = False   # (set by typed-input cases) astype towards an integer / real element type is a C cast of the symbolic elements
    pow_mode = "alg"   # 'alg' algebraic powers, 'uf' uninterpreted power functions
    pow_uf_for = set() # exponents (Fractions) that are always uninterpreted, whatever pow_mode says
    fresh = 0
    notes = set()
    conc_trig_float = False  # cos/sin of a concrete angle evaluated in floating point (as the code itself does)
    snap_literals = False  # read float literals such as 0.4 at their decimal value 2/5
    absorb_eps = Fr(3, 2 * 10 ** 10)   # |c| <= eps added to a symbolic value is absorbed (0 disables)

    @classmethod
    def reset(cls, mode="REAL"):
        cls.mode = mode
        cls.explorer = None
        cls.defs = {}
        cls.sem = {}
        cls.facts = {}
        cls.keys = {}
        cls.absorbed = 0
        cls.float_evals = 0
        cls.fork_div = False
        cls.pow_mode = "alg"
        cls.pow_uf_for = set()
        cls.fresh = 0
        cls.notes = set()
        cls.absorb_eps = Fr(3, 2 * 10 ** 10)
        cls.snap_literals = False
        cls.conc_trig_float = False
        cls.typed_casts = False


def conc(x):
    return isinstance(x, Fr)


def tov(x):
    """python/numpy number -> Fraction ; z3 term stays."""
    if isinstance(x, Fr) or isinstance(x, z3.ExprRef):
        return x
    if isinstance(x, (bool, numpy.bool_)):
        return Fr(int(x))
    if isinstance(x, (int, numpy.integer)):
        return Fr(int(x))
    if isinstance(x, (float, numpy.floating)):
        f = float(x)
        if f != f or f in (float("inf"), float("-inf")):
            raise ValueError("non-finite float constant in symbolic execution: %r" % f)
        v = Fr(f)
        if St.snap_literals and v.denominator != 1:
            g = v.limit_denominator(10 ** 6)
            if abs(g - v) <= Fr(4, 10 ** 16) * abs(v):
                return g          # decimal literal read at its decimal value (<= 1 ulp away)
        return v
    raise TypeError("cannot lift %r" % type(x))


def z(x):
    """value -> z3 term"""
    if conc(x):
        if x.denominator == 1:
            return z3.RealVal(x.numerator)
        return z3.RealVal(str(x))
    return x


def _hname(prefix, key):
    """deterministic variable name from a definition key (independent of creation order / process history)"""
    import hashlib
    return "%s!%s" % (prefix, hashlib.md5(repr(key).encode()).hexdigest()[:12])


def canon(t):
    return z3.simplify(z(t), som=True, sort_sums=True, flat=True)


def fresh(prefix):
    St.fresh += 1
    return z3.Real("%s!%d" % (prefix, St.fresh))


# ------------------------------------------------------------------ EUF operations
_R = z3.RealSort()
_UF = {}


def uf(name, arity, rng=None):
    k = (name, arity, str(rng))
    if k not in _UF:
        _UF[k] = z3.Function(name, *([_R] * arity + [_R if rng is None else rng]))
    return _UF[k]


# ------------------------------------------------------------------ value arithmetic
def vadd(a, b):
    if conc(a) and conc(b):
        return a + b
    if St.mode == "EUF":
        return uf("fadd", 2)(z(a), z(b))
    if conc(a) and a == 0:
        return b
    if conc(b) and b == 0:
        return a
    return z(a) + z(b)


def vneg(a):
    if conc(a):
        return -a
    if St.mode == "EUF":
        return uf("fneg", 1)(a)
    return -a


def vsub(a, b):
    if conc(a) and conc(b):
        return a - b
    if St.mode == "EUF":
        return uf("fsub", 2)(z(a), z(b))
    if conc(b) and b == 0:
        return a
    if conc(a) and a == 0:
        return -b
    return z(a) - z(b)


def vmul(a, b):
    if conc(a) and conc(b):
        return a * b
    if St.mode == "EUF":
        return uf("fmul", 2)(z(a), z(b))
    if conc(a):
        if a == 0:
            return Fr(0)
        if a == 1:
            return b
    if conc(b):
        if b == 0:
            return Fr(0)
        if b == 1:
            return a
    return z(a) * z(b)


def vdiv(a, b):
    if conc(b):
        if b == 0:
            raise ZeroDivisionError("symbolic engine: division by concrete zero")
        if conc(a):
            return a / b
        if St.mode == "EUF":
            return uf("fdiv", 2)(z(a), z(b))
        return vmul(a, 1 / b)
    if St.mode == "EUF":
        return uf("fdiv", 2)(z(a), z(b))
    if conc(a) and a == 0:
        return Fr(0)
    if not conc(a) and a.eq(b):
        return Fr(1)       # x/x with x != 0 (a zero divisor is outside the REAL-mode claim unless fork_div is on)
    return z(a) / z(b)


def is_zero(v):
    return conc(v) and v == 0


# ------------------------------------------------------------------ booleans
class SymBool:
    """A symbolic truth value; bool() forks."""
    __slots__ = ("e",)

    def __init__(self, e):
        self.e = e

    def __bool__(self):
        ex = St.explorer
        if ex is None:
            # no exploration in progress: only a condition that is valid or unsatisfiable on its own can be decided
            s = z3.Solver()
            s.set("timeout", 5000)
            if s.check(z3.Not(self.e)) == z3.unsat:
                return True
            if s.check(self.e) == z3.unsat:
                return False
            A = list(getattr(St, "split_assume", ())) + list(getattr(St, "split_pre", ()))
            if A:
                # the harness is re-running this case under assumed outcomes of earlier value-dependent branches
                s.add(A)
                if s.check(z3.Not(self.e)) == z3.unsat:
                    return True
                if s.check(self.e) == z3.unsat:
                    return False
            raise SplitNeeded(self.e)
        return ex.branch(self.e)

    def __and__(self, o):
        return SymBool(z3.And(self.e, _b(o)))
    __rand__ = __and__

    def __or__(self, o):
        return SymBool(z3.Or(self.e, _b(o)))
    __ror__ = __or__

    def __invert__(self):
        return SymBool(z3.Not(self.e))

    def __repr__(self):
        return "SymBool(%s)" % self.e

    def __int__(self):
        return 1 if bool(self) else 0
    __index__ = __int__

    def __float__(self):
        return 1.0 if bool(self) else 0.0

    def floor(self):
        return Sym.lift(self)
    ceil = rint = floor


def _b(o):
    if isinstance(o, SymBool):
        return o.e
    return z3.BoolVal(bool(o))


def sym_and(a, b):
    if isinstance(a, SymBool) or isinstance(b, SymBool):
        return SymBool(z3.And(_b(a), _b(b)))
    return bool(a) and bool(b)


def ite(c, a, b):
    """elementwise if-then-else without forking"""
    if not isinstance(c, SymBool):
        return a if c else b
    a = Sym.lift(a)
    b = Sym.lift(b)
    return Sym(_ite(c.e, a.re, b.re), _ite(c.e, a.im, b.im))


def _ite(c, a, b):
    if conc(a) and conc(b) and a == b:
        return a
    return z3.If(c, z(a), z(b))


# ------------------------------------------------------------------ the scalar
class Sym:
    __slots__ = ("re", "im", "sq_of", "root", "tag", "isint")

    def __init__(self, re, im=0):
        self.re = tov(re)
        self.im = tov(im)
        self.isint = False  # set on variables that stand for a Python int (isinstance(x, int) is True, int(x) is x)
        self.sq_of = None   # if set: this value is sqrt(sq_of) (sq_of a value)
        self.root = None    # if set: sqrt(self) is this value
        self.tag = None

    # ---- construction helpers
    @staticmethod
    def lift(o):
        if isinstance(o, Sym):
            return o
        if isinstance(o, SymBool):
            return Sym(1 if bool(o) else 0)      # numeric use of a symbolic truth value: decided here (forks)
        if isinstance(o, (complex, numpy.complexfloating)):
            return Sym(o.real, o.imag)
        if isinstance(o, numpy.ndarray) and o.ndim == 0:
            return Sym.lift(o.item())
        return Sym(o)

    def isreal(self):
        return is_zero(self.im)

    def isconc(self):
        return conc(self.re) and conc(self.im)

    # ---- arithmetic
    def __add__(self, o):
        if isinstance(o, numpy.ndarray) and o.ndim:
            return NotImplemented
        o = Sym.lift(o)
        # tiny additive regularisers are absorbed (documented, DESIGN 2.5a)
        if St.mode == "REAL":
            if o.isconc() and not self.isconc() and o.im == 0 and o.re != 0 and abs(o.re) <= St.absorb_eps:
                St.absorbed += 1
                return self
            if self.isconc() and not o.isconc() and self.im == 0 and self.re != 0 and abs(self.re) <= St.absorb_eps:
                St.absorbed += 1
                return o
        return Sym(vadd(self.re, o.re), vadd(self.im, o.im))
    __radd__ = __add__

    def __neg__(self):
        return Sym(vneg(self.re), vneg(self.im))

    def __pos__(self):
        return self

    def __sub__(self, o):
        if isinstance(o, numpy.ndarray) and o.ndim:
            return NotImplemented
        o = Sym.lift(o)
        return Sym(vsub(self.re, o.re), vsub(self.im, o.im))

    def __rsub__(self, o):
        if isinstance(o, numpy.ndarray) and o.ndim:
            return NotImplemented
        return Sym.lift(o) - self

    def __mul__(self, o):
        if isinstance(o, numpy.ndarray) and o.ndim:
            return NotImplemented
        o = Sym.lift(o)
        if self.sq_of is not None and o.sq_of is not None and (o is self or (
                not conc(self.re) and not conc(o.re) and self.re.get_id() == o.re.get_id())) and St.mode == "REAL":
            return Sym(self.sq_of)          # sqrt(x) * sqrt(x) = x  (x >= 0 is the sqrt's own domain axiom)
        a, b, c, d = self.re, self.im, o.re, o.im
        if is_zero(b) and is_zero(d):
            return Sym(vmul(a, c))
        if is_zero(b):
            return Sym(vmul(a, c), vmul(a, d))
        if is_zero(d):
            return Sym(vmul(a, c), vmul(b, c))
        return Sym(vsub(vmul(a, c), vmul(b, d)), vadd(vmul(a, d), vmul(b, c)))
    __rmul__ = __mul__

    def __truediv__(self, o):
        if isinstance(o, numpy.ndarray) and o.ndim:
            return NotImplemented
        o = Sym.lift(o)
        if St.fork_div and o.isreal() and not conc(o.re) and St.explorer is not None:
            if bool(SymBool(z(o.re) == 0)):
                raise ZeroDivisionError("float division by zero")
        if o.isreal():
            return Sym(vdiv(self.re, o.re), vdiv(self.im, o.re))
        den = vadd(vmul(o.re, o.re), vmul(o.im, o.im))
        return self * Sym(vdiv(o.re, den), vneg(vdiv(o.im, den)))

    def __rtruediv__(self, o):
        if isinstance(o, numpy.ndarray) and o.ndim:
            return NotImplemented
        return Sym.lift(o) / self

    def __floordiv__(self, o):
        o = Sym.lift(o)
        q = self / o
        return q.floor()

    def __mod__(self, o):
        o = Sym.lift(o)
        return self - (self // o) * o

    def __pow__(self, n):
        if isinstance(n, numpy.ndarray) and n.ndim:
            return NotImplemented
        if isinstance(n, Sym):
            if not (n.isreal() and conc(n.re)):
                raise NotImplementedError("symbolic exponent")
            n = n.re
        n = snap_exponent(n)
        if n.denominator == 1:
            k = int(n)
            if k == 2 and self.sq_of is not None:
                return Sym(self.sq_of)
            if k >= 0:
                return self._ipow(k)
            return Sym(1) / self._ipow(-k)
        if n == Fr(1, 2):
            return self.sqrt()
        return rat_pow(self, n)

    def __rpow__(self, base):
        # base ** self  (e.g. 10 ** (-0.4*mag))
        base = Sym.lift(base)
        if self.isconc() and self.isreal():
            return base ** self.re
        if not (base.isconc() and base.isreal()):
            raise NotImplementedError("symbolic ** symbolic")
        return exp_base(base.re, self)

    def _ipow(self, k):
        if k == 0:
            return Sym(1)
        if St.mode == "EUF" and not self.isconc():
            out = self
            for _ in range(k - 1):
                out = out * self
            return out
        # square-and-multiply keeps terms small
        out = None
        basep = self
        while k:
            if k & 1:
                out = basep if out is None else out * basep
            k >>= 1
            if k:
                basep = basep * basep
        return out

    def conjugate(self):
        return Sym(self.re, vneg(self.im))
    conj = conjugate

    # NumPy-scalar surface (the result of arithmetic on 0-d arrays is a scalar that still has these)
    ndim = 0
    shape = ()
    size = 1

    def _axis_ok(self, axis):
        if axis not in (None, 0, -1, ()):
            raise numpy.exceptions.AxisError("axis %r is out of bounds for array of dimension 0" % (axis,))

    def sum(self, axis=None, *a, **k):
        self._axis_ok(axis)
        return self

    def mean(self, axis=None, *a, **k):
        self._axis_ok(axis)
        return self
    max = min = prod = sum

    def item(self):
        return self

    def copy(self):
        return self

    def squeeze(self, axis=None):
        return self

    def ravel(self):
        a = numpy.empty(1, dtype=object)
        a[0] = self
        return a.view(SA)
    flatten = ravel

    @property
    def real(self):
        return Sym(self.re)

    @property
    def imag(self):
        return Sym(self.im)

    def abs2(self):
        return Sym(vadd(vmul(self.re, self.re), vmul(self.im, self.im)))

    def __abs__(self):
        if self.isreal():
            if conc(self.re):
                return Sym(abs(self.re))
            if St.mode == "EUF":
                return Sym(uf("fabs", 1)(self.re))
            if self.sq_of is not None:
                return self
            return Sym(z3.If(self.re >= 0, self.re, -self.re))
        if St.mode == "REAL" and not conc(self.im):
            im_s = z3.simplify(self.im, som=True)
            if z3.is_rational_value(im_s) and im_s.numerator_as_long() == 0:
                return abs(Sym(self.re))
        return self.abs2().sqrt()

    # numpy object-loop method names
    def sqrt(self):
        return sym_sqrt(self)

    def exp(self):
        return sym_exp(self)

    def log10(self):
        return sym_log10(self)

    def cos(self):
        return sym_exp(self * Sym(0, 1)).real

    def sin(self):
        return sym_exp(self * Sym(0, 1)).imag

    def tan(self):
        e = sym_exp(self * Sym(0, 1))
        return e.imag / e.real

    def hypot(self, o):
        o = Sym.lift(o)
        return (self * self + o * o).sqrt()

    def square(self):
        return self * self

    def reciprocal(self):
        return Sym(1) / self

    def cbrt(self):
        return self ** Fr(1, 3)

    def deg2rad(self):
        return self * Sym(math.pi / 180.0)
    radians = deg2rad

    def rad2deg(self):
        return self * Sym(180.0 / math.pi)
    degrees = rad2deg

    def log(self):
        return sym_log(self)

    def log2(self):
        return sym_log(self) / sym_log(Sym(2))

    def arctan(self):
        if self.isreal() and conc(self.re):
            St.float_evals += 1
            return Sym(math.atan(float(self.re)))
        if not self.isreal():
            raise NotImplementedError("arctan of a complex symbolic value")
        return Sym(uf("arctan", 1)(canon(self.re) if St.mode == "REAL" else self.re))

    def floor(self):
        if not self.isreal():
            raise TypeError("floor of complex")
        if conc(self.re):
            return Sym(math.floor(self.re))
        return Sym(z3.ToReal(z3.ToInt(self.re)))

    def rint(self):
        # round-half-even on a concrete value; symbolic: floor(x+1/2) (ties outside the claim)
        if conc(self.re):
            return Sym(round(self.re))
        St.notes.add("symbolic rint modelled as floor(x+1/2)")
        return (self + Fr(1, 2)).floor()

    def __round__(self, nd=None):
        return self.rint()

    # ---- comparisons (real parts)
    def _cmp(self, o, op, name):
        if isinstance(o, numpy.ndarray) and o.ndim:
            return NotImplemented
        o = Sym.lift(o)
        if name in ("eq", "ne") and not (self.isreal() and o.isreal()):
            if self.isconc() and o.isconc():
                r = (self.re == o.re and self.im == o.im)
                return r if name == "eq" else not r
            e = z3.And(z(self.re) == z(o.re), z(self.im) == z(o.im))
            return SymBool(e if name == "eq" else z3.Not(e))
        if conc(self.re) and conc(o.re):
            return bool(op(self.re, o.re))
        if not conc(self.re) and not conc(o.re) and self.re.eq(o.re):
            # the same term on both sides: decided without a fork (matters for dict / cache lookups)
            return name in ("eq", "le", "ge")
        if St.mode == "EUF":
            if name == "eq":
                return SymBool(uf("feq", 2, z3.BoolSort())(z(self.re), z(o.re)))
            if name == "ne":
                return SymBool(z3.Not(uf("feq", 2, z3.BoolSort())(z(self.re), z(o.re))))
            if name == "lt":
                return SymBool(uf("flt", 2, z3.BoolSort())(z(self.re), z(o.re)))
            if name == "gt":
                return SymBool(uf("flt", 2, z3.BoolSort())(z(o.re), z(self.re)))
            if name == "le":
                return SymBool(uf("fle", 2, z3.BoolSort())(z(self.re), z(o.re)))
            if name == "ge":
                return SymBool(uf("fle", 2, z3.BoolSort())(z(o.re), z(self.re)))
        return SymBool(op(z(self.re), z(o.re)))

    def __le__(self, o):
        return self._cmp(o, lambda a, b: a <= b, "le")

    def __lt__(self, o):
        return self._cmp(o, lambda a, b: a < b, "lt")

    def __ge__(self, o):
        return self._cmp(o, lambda a, b: a >= b, "ge")

    def __gt__(self, o):
        return self._cmp(o, lambda a, b: a > b, "gt")

    def __eq__(self, o):
        if o is None or isinstance(o, str):
            return False
        return self._cmp(o, lambda a, b: a == b, "eq")

    def __ne__(self, o):
        if o is None or isinstance(o, str):
            return True
        return self._cmp(o, lambda a, b: a != b, "ne")

    def __hash__(self):
        # value-based so that dict/cache keys built from symbolic parameters behave as with floats
        if self.isconc():
            return hash(self.re) if self.im == 0 else hash(complex(float(self.re), float(self.im)))
        return hash((z(self.re).sexpr(), z(self.im).sexpr()))

    def __bool__(self):
        r = (self != 0)
        return bool(r)

    # ---- bit-OR mirror of float32 views (slopecovariance.mirror_covariance_matrix)
    def __or__(self, o):
        if isinstance(o, numpy.ndarray) and o.ndim:
            return NotImplemented
        o = Sym.lift(o)
        if self.isconc() and self.re == 0:
            return o
        if o.isconc() and o.re == 0:
            return self
        a, b = z(self.re), z(o.re)
        if a.eq(b):
            return self
        return Sym(uf("bitor32", 2)(a, b))
    __ror__ = __or__

    # ---- conversions
    def __float__(self):
        if self.isconc() and self.isreal():
            return float(self.re)
        raise TypeError("float() of a symbolic value (module not rebound?) %r" % (self,))

    def __complex__(self):
        if self.isconc():
            return complex(float(self.re), float(self.im))
        raise TypeError("complex() of a symbolic value")

    def __int__(self):
        return sym_int(self)

    def __index__(self):
        return sym_int(self)

    def __repr__(self):
        if self.isreal():
            return "Sym(%s)" % (self.re,)
        return "Sym(%s, %s)" % (self.re, self.im)

    def __format__(self, spec):
        return repr(self)


def snap_exponent(n):
    """float exponents such as 5./3. are snapped to the small rational they round from."""
    if isinstance(n, Fr):
        f = n
    elif isinstance(n, (int, numpy.integer)):
        return Fr(int(n))
    else:
        f = Fr(float(n))
    if f.denominator == 1:
        return f
    g = f.limit_denominator(60)
    if abs(g - f) <= Fr(1, 10 ** 12) * max(1, abs(f)):
        return g
    return f


# ------------------------------------------------------------------ symbolic int()
def sym_int(x):
    """int(x): concrete -> truncation; symbolic -> fork on the value (enumerated by the solver)."""
    x = Sym.lift(x)
    if not x.isreal():
        raise TypeError("int() of complex")
    if conc(x.re):
        return int(x.re)   # Fraction.__trunc__
    ex = St.explorer
    if ex is None:
        raise RuntimeError("int() of symbolic value outside an Explorer")
    # truncation toward zero
    t = z3.If(x.re >= 0, z3.ToInt(x.re), -z3.ToInt(-x.re))
    return ex.choose_int(t)


# ------------------------------------------------------------------ sqrt / powers / exp
def _exact_root(v, q):
    """exact q-th root of a non-negative Fraction or None"""
    if v < 0:
        return None

    def iroot(n):
        if n == 0:
            return 0
        if n.bit_length() > 4096:
            return None
        # integer Newton iteration for floor(n ** (1/q))
        r = 1 << -(-n.bit_length() // q)
        while True:
            t = ((q - 1) * r + n // (r ** (q - 1))) // q
            if t >= r:
                break
            r = t
        return r if r ** q == n else None
    a, b = iroot(v.numerator), iroot(v.denominator)
    if a is None or b is None:
        return None
    return Fr(a, b)


def sym_sqrt(x):
    x = Sym.lift(x)
    if x.root is not None:
        return Sym(x.root)
    if not x.isreal():
        raise NotImplementedError("sqrt of complex")
    if conc(x.re):
        r = _exact_root(x.re, 2)
        if r is not None:
            return Sym(r)
        if St.mode == "EUF" or St.pow_mode == "float":
            St.float_evals += 1
            return Sym(math.sqrt(x.re))
        key = ("sqrt", str(x.re))
        arg = z(x.re)
    else:
        if St.mode == "EUF":
            return Sym(uf("fsqrt", 1)(x.re))
        arg = canon(x.re)
        key = ("sqrt", arg.sexpr())
    if key not in St.keys:
        v = z3.Real(_hname("sq", key))
        St.defs[v.decl().name()] = ([v >= 0, v * v == arg], [arg])
        St.sem[v.decl().name()] = ("sqrt", arg)
        St.keys[key] = v
    out = Sym(St.keys[key])
    out.sq_of = x.re
    return out


def rat_pow(x, n):
    """x ** (p/q) for x > 0 (positivity of the base is a recorded assumption)."""
    x = Sym.lift(x)
    if not x.isreal():
        raise NotImplementedError("rational power of complex")
    if x.tag is not None and x.tag[0] == "powof" and St.mode == "REAL":
        # (b^a)^n = b^(a n) for b > 0
        base, a = x.tag[1], x.tag[2]
        tot = a * n
        if tot == 1:
            return Sym(base)
        if tot.denominator == 1 and 0 < tot <= 8:
            return Sym(base)._ipow(int(tot))
        return rat_pow(Sym(base), tot)
    out = _rat_pow(x, n)
    if St.mode == "REAL" and not x.isconc():
        out.tag = ("powof", x.re, n)
    return out


def _rat_pow(x, n):
    p, q = n.numerator, n.denominator
    if conc(x.re):
        if x.re == 0:
            if p > 0:
                return Sym(0)
            raise ZeroDivisionError("0 ** negative")
        r = _exact_root(x.re, q)
        if r is not None:
            return Sym(r ** p)
        if St.mode == "EUF" or St.pow_mode == "float":
            St.float_evals += 1
            return Sym(float(x.re) ** float(n))
        arg = z(x.re)
        key = ("pow", str(x.re), str(n))
    else:
        if St.mode == "EUF":
            return Sym(uf("fpow_%d_%d" % (p, q) if p >= 0 else "fpow_m%d_%d" % (-p, q), 1)(x.re))
        arg = canon(x.re)
        key = ("pow", arg.sexpr(), str(n))
    St.notes.add("rational powers: base assumed > 0")
    if key not in St.keys:
        if St.pow_mode == "uf" or n in St.pow_uf_for:
            f = uf("pow_%s_%d" % (("m%d" % -p) if p < 0 else str(p), q), 1)
            St.keys[key] = f(arg)
            add_fact(St.keys[key], St.keys[key] > 0)
        else:
            v = z3.Real(_hname("pw", key))
            ax = [v > 0]
            if p > 0:
                ax.append(_zpow(v, q) == _zpow(arg, p))
            else:
                ax.append(_zpow(v, q) * _zpow(arg, -p) == 1)
            St.defs[v.decl().name()] = (ax, [arg])
            St.sem[v.decl().name()] = ("pow", arg, p, q)
            St.keys[key] = v
    return Sym(St.keys[key])


def _zpow(t, k):
    out = None
    for _ in range(k):
        out = t if out is None else out * t
    return out if out is not None else z3.RealVal(1)


def sym_exp(x):
    """exp(a + i b) = rexp(a) * (cos b, sin b); unit-circle pair per distinct canonical b."""
    x = Sym.lift(x)
    mag = None
    if not is_zero(x.re):
        if St.mode == "EUF":
            mag = Sym(uf("fexp", 1)(z(x.re)))
        elif conc(x.re):
            key = ("rexp", str(x.re))
            if key not in St.keys:
                St.keys[key] = uf("rexp", 1)(z(x.re))
                add_fact(St.keys[key], St.keys[key] > 0)
            mag = Sym(St.keys[key])
        else:
            app = uf("rexp", 1)(canon(x.re))
            add_fact(app, app > 0)
            mag = Sym(app)
    ph = None
    if not is_zero(x.im):
        if St.mode == "EUF":
            ph = Sym(uf("fcos", 1)(z(x.im)), uf("fsin", 1)(z(x.im)))
        else:
            ph = unit_pair(x.im)
    if mag is None and ph is None:
        return Sym(1)
    if mag is None:
        return ph
    if ph is None:
        return mag
    return mag * ph


def unit_pair(theta):
    """(cos theta, sin theta) for a value theta; one variable pair per canonical |theta|:
    theta and -theta share a pair (conjugated), so exp(i t) * exp(-i t) folds with c^2+s^2 = 1."""
    if conc(theta) and St.conc_trig_float:
        St.float_evals += 1
        return Sym(math.cos(theta), math.sin(theta))
    if conc(theta):
        neg = theta < 0
        arg = z(-theta if neg else theta)
        key = ("cis", str(-theta if neg else theta))
    else:
        a1 = canon(theta)
        a2 = canon(-theta)
        s1, s2 = a1.sexpr(), a2.sexpr()
        neg = (len(s2), s2) < (len(s1), s1)
        arg = a2 if neg else a1
        key = ("cis", s2 if neg else s1)
    if key not in St.keys:
        c, s = z3.Real(_hname("cs", key)), z3.Real(_hname("sn", key))
        St.defs[c.decl().name()] = ([c * c + s * s == 1], [arg])
        St.defs[s.decl().name()] = ([c * c + s * s == 1], [arg])
        St.sem[c.decl().name()] = ("cos", arg)
        St.sem[s.decl().name()] = ("sin", arg)
        St.keys[key] = (c, s, arg)
    c, s, _ = St.keys[key]
    out = Sym(c, -s) if neg else Sym(c, s)
    out.tag = ("cis", key)
    return out


def angles():
    """all recorded unit-circle pairs: list of (theta_term, c, s)"""
    return [(v[2], v[0], v[1]) for k, v in St.keys.items() if k[0] == "cis"]


def exp_base(base, x):
    """base ** x for concrete base > 0 and symbolic real x : uninterpreted per base"""
    if not x.isreal():
        raise NotImplementedError
    f = uf("exp_b%s" % str(base).replace("/", "_"), 1)
    return Sym(f(canon(x.re)) if St.mode == "REAL" else f(z(x.re)))


def sym_log10(x):
    x = Sym.lift(x)
    if not x.isreal():
        raise NotImplementedError
    if conc(x.re):
        if x.re > 0:
            # exact for powers of ten
            v, k = x.re, 0
            while v >= 10 and v.denominator == 1 and v % 10 == 0:
                v /= 10
                k += 1
            if v == 1:
                return Sym(k)
        St.float_evals += 1
        return Sym(math.log10(x.re))
    return Sym(uf("log10", 1)(canon(x.re) if St.mode == "REAL" else x.re))


def sym_log(x):
    """natural logarithm: floating point on a concrete argument, otherwise an uninterpreted function (functional
    consistency only; ln 1 = 0)"""
    x = Sym.lift(x)
    if not x.isreal():
        raise NotImplementedError("log of a complex symbolic value")
    if conc(x.re):
        if x.re == 1:
            return Sym(0)
        St.float_evals += 1
        return Sym(math.log(x.re))
    return Sym(uf("ln", 1)(canon(x.re) if St.mode == "REAL" else x.re))


# ------------------------------------------------------------------ axioms in the cone of influence
def add_fact(app, axiom):
    """a fact about an uninterpreted application, included in every query that mentions its function"""
    St.facts.setdefault(app.decl().name(), {})[app.get_id()] = axiom


def _decls(t, acc):
    seen = set()
    stack = [t]
    while stack:
        e = stack.pop()
        i = e.get_id()
        if i in seen:
            continue
        seen.add(i)
        if z3.is_app(e) and e.num_args() > 0 and e.decl().kind() == z3.Z3_OP_UNINTERPRETED:
            acc.setdefault(e.decl().name(), set()).add(i)
        stack.extend(e.children())


def _consts(t, acc):
    seen = set()
    stack = [t]
    while stack:
        e = stack.pop()
        i = e.get_id()
        if i in seen:
            continue
        seen.add(i)
        if z3.is_const(e) and e.decl().kind() == z3.Z3_OP_UNINTERPRETED:
            acc.add(e.decl().name())
        else:
            stack.extend(e.children())


def axioms_for(terms):
    """defining axioms (sqrt, pow, unit pairs, ...) of every defined variable reachable from terms."""
    names = set()
    for t in terms:
        if isinstance(t, (z3.ExprRef,)):
            _consts(t, names)
    out = []
    done = set()
    work = list(names)
    seen_ax = set()
    while work:
        n = work.pop()
        if n in done:
            continue
        done.add(n)
        d = St.defs.get(n)
        if not d:
            continue
        axs, deps = d
        for a in axs:
            if a.get_id() not in seen_ax:
                seen_ax.add(a.get_id())
                out.append(a)
            more = set()
            _consts(a, more)
            work.extend(more - done)
        for dep in deps:
            more = set()
            _consts(dep, more)
            work.extend(more - done)
    # facts about the uninterpreted applications that occur in the query (terms and collected axioms)
    if St.facts:
        occ = {}
        for t in list(terms) + out:
            if isinstance(t, z3.ExprRef):
                _decls(t, occ)
        for name, ids in occ.items():
            fs = St.facts.get(name)
            if fs:
                for i in ids:
                    if i in fs:
                        out.append(fs[i])
    return out


def define(var, axioms, deps=()):
    """register axioms tied to a variable (included when the variable is in a query)."""
    St.defs[var.decl().name()] = (list(axioms), list(deps))


# ------------------------------------------------------------------ variables / arrays
def var(name):
    return Sym(z3.Real(name))


def int_var(name):
    """a variable that stands for a Python int: integrality is the caller's precondition (ToInt(v) == v);
    isinstance(v, int) holds and int(v) returns v itself instead of enumerating values"""
    v = Sym(z3.Real(name))
    v.isint = True
    return v


def cvar(name):
    return Sym(z3.Real(name + ".r"), z3.Real(name + ".i"))


_ND_DTYPE = numpy.ndarray.dtype


def raw_dtype(a):
    """the storage dtype (object for symbolic arrays), whatever element type a typed symbolic array presents"""
    return _ND_DTYPE.__get__(a) if isinstance(a, numpy.ndarray) else numpy.asarray(a).dtype


class SA(numpy.ndarray):
    """object ndarray whose float casts / float32 views are the identity (REAL) or a cast UF (EUF)."""

    @property
    def dtype(self):
        # a typed symbolic array (core.typed) presents the element type it stands for: code that allocates or casts
        # "like the input" (astype(x.dtype), zeros(shape, dtype=x.dtype)) then does what it does for such an input
        idt = getattr(self, "_idt", None)
        return idt if idt is not None else _ND_DTYPE.__get__(self)

    def __array_finalize__(self, obj):
        # single-precision tag (only set by checks that model float32 inputs) follows views and copies
        if getattr(obj, "_is_f32", False):
            self._is_f32 = True
        # integer / boolean element type (set by checks that model such inputs, and by *_like of such arrays):
        # follows views and copies of the same data; results of arithmetic are new arrays and do not inherit it
        idt = getattr(obj, "_idt", None)
        if idt is not None and isinstance(obj, SA) and (self.base is obj or obj.base is not None and self.base is obj.base
                                                         or getattr(self, "_copy_of", None) is obj):
            self._idt = idt

    def copy(self, *a, **k):
        out = numpy.ndarray.copy(self, *a, **k)
        idt = getattr(self, "_idt", None)
        if idt is not None:
            out._idt = idt
        return out

    def _cast_elem(self, v):
        """what storing v into an integer / boolean array keeps of it (C cast: truncation toward zero; non-zero -> True)"""
        idt = self._idt
        v = Sym.lift(v)
        if idt.kind == "c":
            return v
        if not v.isreal():
            v = v.real          # ComplexWarning: the imaginary part is discarded
        if idt.kind == "f":
            return v
        if idt.kind == "b":
            if conc(v.re):
                return Sym(1 if v.re != 0 else 0)
            return Sym(z3.If(z(v.re) != 0, z3.RealVal(1), z3.RealVal(0)))
        if conc(v.re):
            out = Sym(int(v.re))
        else:
            t = z(v.re)
            out = Sym(z3.If(t >= 0, z3.ToReal(z3.ToInt(t)), -z3.ToReal(z3.ToInt(-t))))
        if idt.kind == "u" and idt.itemsize < 8 or idt.kind == "i" and idt.itemsize < 4:
            St.notes.add("narrow integer dtypes: wrap-around on store is not modelled (truncation only)")
        return out

    def __setitem__(self, key, value):
        if getattr(self, "_idt", None) is not None:
            if isinstance(value, numpy.ndarray):
                cv = numpy.empty(value.shape, dtype=object)
                for i in numpy.ndindex(*value.shape):
                    cv[i] = self._cast_elem(value[i])
                value = cv
            elif isinstance(value, (list, tuple)):
                return self.__setitem__(key, numpy.array(value, dtype=object))
            else:
                value = self._cast_elem(value)
        return numpy.ndarray.__setitem__(self, key, value)

    def __array_wrap__(self, out_arr, context=None, return_scalar=False):
        # reductions to 0-d give the element itself (as NumPy does for plain ndarrays)
        if out_arr.ndim == 0:
            return out_arr[()]
        return numpy.ndarray.__array_wrap__(self, out_arr, context, return_scalar)

    def astype(self, dtype, *a, **k):
        dt = _dt(dtype)
        if dt is not None and dt.kind == "f" and getattr(self, "_idt", None) is None and St.typed_casts and \
                any(not Sym.lift(e).isreal() for e in numpy.ndarray.ravel(numpy.asarray(self))):
            out = typed(numpy.empty(self.shape, dtype=object), dt)
            for i in numpy.ndindex(*self.shape):
                out[i] = numpy.ndarray.__getitem__(self, i)      # complex -> real cast drops the imaginary part
            return out
        if dt is not None and dt.kind in "fc" and dt.itemsize >= 8 and k.get("copy", True) is False and St.mode == "REAL":
            return self          # symbolic arrays stand for float64/complex128: astype(copy=False) aliases
        if dt is not None and dt.kind in "fc":
            if St.mode == "EUF" and dt.itemsize == 4:
                f = uf("cast32", 1)
                out = numpy.empty(self.shape, dtype=object)
                for i in numpy.ndindex(*self.shape):
                    e = Sym.lift(numpy.ndarray.__getitem__(self, i))
                    out[i] = e if e.isconc() else Sym(f(z(e.re)))
                return out.view(SA)
            return self.copy()
        if dt is not None and dt.kind in "iub":
            elems = [Sym.lift(numpy.ndarray.__getitem__(self, i)) for i in numpy.ndindex(*self.shape)]
            if all(e.isconc() for e in elems) or dt.kind != "b" and getattr(self, "_idt", None) is None and St.explorer is not None and not St.typed_casts:
                out = numpy.empty(self.shape, dtype=dt)
                for i in numpy.ndindex(*self.shape):
                    out[i] = sym_int(numpy.ndarray.__getitem__(self, i))
                return out
            out = typed(numpy.empty(self.shape, dtype=object), dt)
            for i in numpy.ndindex(*self.shape):
                out[i] = numpy.ndarray.__getitem__(self, i)      # __setitem__ applies the C cast
            return out

        return numpy.ndarray.astype(self, dtype, *a, **k)

    # a tiny regulariser added to an array with symbolic elements is absorbed for *all* elements
    def _tiny(self, o):
        if St.mode != "REAL" or isinstance(o, numpy.ndarray):
            return False
        try:
            v = Sym.lift(o)
        except TypeError:
            return False
        if not (v.isconc() and v.im == 0 and v.re != 0 and abs(v.re) <= St.absorb_eps):
            return False
        return any(not Sym.lift(e).isconc() for e in numpy.ndarray.ravel(numpy.asarray(self)))

    def __add__(self, o):
        if self._tiny(o):
            St.absorbed += self.size
            return self.copy()
        return numpy.ndarray.__add__(self, o)

    def __radd__(self, o):
        if self._tiny(o):
            St.absorbed += self.size
            return self.copy()
        return numpy.ndarray.__radd__(self, o)

    def __iadd__(self, o):
        if self._tiny(o):
            St.absorbed += self.size
            return self
        return numpy.ndarray.__iadd__(self, o)

    def view(self, *a, **k):
        if a and isinstance(a[0], str) and a[0] in ("int32", "float32", "float64", "int64"):
            return self
        return numpy.ndarray.view(self, *a, **k)

    @property
    def real(self):
        out = numpy.empty(self.shape, dtype=object)
        for i in numpy.ndindex(*self.shape):
            out[i] = Sym.lift(numpy.ndarray.__getitem__(self, i)).real
        return out.view(SA)

    @real.setter
    def real(self, value):
        v = numpy.broadcast_to(numpy.asarray(value, dtype=object), self.shape)
        for i in numpy.ndindex(*self.shape):
            old = Sym.lift(numpy.ndarray.__getitem__(self, i))
            numpy.ndarray.__setitem__(self, i, Sym(Sym.lift(v[i]).re, old.im))

    @property
    def imag(self):
        out = numpy.empty(self.shape, dtype=object)
        for i in numpy.ndindex(*self.shape):
            out[i] = Sym.lift(numpy.ndarray.__getitem__(self, i)).imag
        return out.view(SA)

    @imag.setter
    def imag(self, value):
        v = numpy.broadcast_to(numpy.asarray(value, dtype=object), self.shape)
        for i in numpy.ndindex(*self.shape):
            old = Sym.lift(numpy.ndarray.__getitem__(self, i))
            numpy.ndarray.__setitem__(self, i, Sym(old.re, Sym.lift(v[i]).re))


def _dt(d):
    if hasattr(d, "_np_dtype"):          # the rebound builtins float / int used as dtype arguments
        d = d._np_dtype
    try:
        return numpy.dtype(d)
    except Exception:
        return None


def obj(a):
    """anything array-like -> SA of Sym"""
    if isinstance(a, SA):
        return a
    arr = numpy.asarray(a)
    if raw_dtype(arr) != object:
        out = numpy.empty(arr.shape, dtype=object)
        for i in numpy.ndindex(*arr.shape):
            out[i] = Sym.lift(arr[i])
        return out.view(SA)
    out = numpy.empty(arr.shape, dtype=object)
    for i in numpy.ndindex(*arr.shape):
        out[i] = Sym.lift(arr[i])
    return out.view(SA)


def symarr(name, shape, cplx=False):
    if isinstance(shape, int):
        shape = (shape,)
    a = numpy.empty(shape, dtype=object)
    for idx in numpy.ndindex(*shape):
        n = name + "[" + ",".join(map(str, idx)) + "]"
        a[idx] = cvar(n) if cplx else var(n)
    return a.view(SA)


def typed(a, dtype):
    """mark a symbolic array as standing for an ndarray of an integer / boolean dtype (the caller constrains the
    element values accordingly): *_like buffers made from it inherit the type and stores into them are C casts"""
    a = a.view(SA)
    a._idt = numpy.dtype(dtype)
    return a


def int_constraints(a, lo=None, hi=None):
    out = []
    for e in numpy.asarray(a, dtype=object).flat:
        t = z(Sym.lift(e).re)
        out.append(t == z3.ToReal(z3.ToInt(t)))
        if lo is not None:
            out.append(t >= lo)
        if hi is not None:
            out.append(t <= hi)
    return out


def terms_of(a):
    """flat list of z3 terms (re and im parts) of an array / scalar"""
    out = []
    if isinstance(a, numpy.ndarray):
        for e in a.flat:
            e = Sym.lift(e)
            out.append(z(e.re))
            out.append(z(e.im))
    else:
        e = Sym.lift(a)
        out += [z(e.re), z(e.im)]
    return out


# ------------------------------------------------------------------ path exploration
class PathAbort(BaseException):
    pass


class Explorer:
    """Re-executes fn once per feasible path (decision-prefix scheme, incremental solver per path)."""

    def __init__(self, pre=(), timeout_ms=20000, max_paths=100000):
        self.pre = list(pre)
        self.timeout_ms = timeout_ms
        self.max_paths = max_paths
        self.n_solver = 0
        self.n_decisions = 0
        self.solver_s = 0.0
        self.inconclusive = 0

    def run(self, fn, prefix=()):
        """explore all feasible paths (below the forced decision prefix, if given)"""
        import time
        stack = [list(prefix)]
        self.forced = len(prefix)
        results = []
        while stack:
            if len(results) >= self.max_paths:
                raise RuntimeError("path budget exceeded")
            prefix = stack.pop()
            self.decisions = list(prefix)
            self.pos = 0
            self.pc = []
            self.pending = []
            self.solver = z3.Solver()
            self.solver.set("timeout", self.timeout_ms)
            self.solver.add(self.pre)
            self._defs_added = set()
            St.explorer = self
            exc = None
            out = None
            try:
                out = fn()
            except PathAbort:
                St.explorer = None
                continue
            except Exception as e:      # the code under test raised on this path
                exc = e
            finally:
                St.explorer = None
            stack.extend(self.pending)
            results.append(Path(list(self.pc), out, exc, list(self.decisions)))
        return results

    def _check(self, *assume):
        import time
        t = time.time()
        r = self.solver.check(*assume)
        self.solver_s += time.time() - t
        self.n_solver += 1
        return r

    def _add_defs(self, t):
        """defining axioms (sqrt, powers, unit pairs, facts) of the variables in t become part of the path solver"""
        for a in axioms_for([t]):
            i = a.get_id()
            if i not in self._defs_added:
                self._defs_added.add(i)
                self.solver.add(a)

    def branch(self, cond):
        cond = z3.simplify(cond)
        if z3.is_true(cond):
            return True
        if z3.is_false(cond):
            return False
        self._add_defs(cond)
        if self.pos < len(self.decisions):
            d = self.decisions[self.pos]
            if self.pos < getattr(self, "forced", 0):
                # a forced (not yet validated) decision: drop the path if it is infeasible
                if self._check(cond if d else z3.Not(cond)) == z3.unsat:
                    raise PathAbort()
        else:
            rt = self._check(cond)
            rf = self._check(z3.Not(cond))
            can_t = rt != z3.unsat
            can_f = rf != z3.unsat
            if rt == z3.unknown or rf == z3.unknown:
                self.inconclusive += 1
            if can_t and can_f:
                d = True
                self.pending.append(self.decisions[:self.pos] + [False])
            elif can_t:
                d = True
            elif can_f:
                d = False
            else:
                raise PathAbort()
            self.decisions.append(d)
        self.pos += 1
        self.n_decisions += 1
        c = cond if d else z3.Not(cond)
        self.pc.append(c)
        self.solver.add(c)
        return d

    def choose_int(self, t):
        """fork on the integer value of term t"""
        self._add_defs(t)
        lo = None
        while True:
            if self.pos < len(self.decisions):
                d = self.decisions[self.pos]
                if isinstance(d, tuple):          # ('int', v)
                    self.pos += 1
                    self.n_decisions += 1
                    c = (t == d[1])
                    self.pc.append(c)
                    self.solver.add(c)
                    return d[1]
                raise RuntimeError("decision replay mismatch")
            # new decision: enumerate all feasible values, follow the first, schedule the rest
            vals = []
            self.solver.push()
            St.fresh += 1
            kv = z3.Int("ci!%d" % St.fresh)
            self.solver.add(kv == t)
            while len(vals) < 64:
                r = self._check()
                if r != z3.sat:
                    if r == z3.unknown:
                        self.inconclusive += 1
                    break
                v = self.solver.model().eval(kv, model_completion=True).as_long()
                vals.append(v)
                self.solver.add(kv != v)
            self.solver.pop()
            if not vals:
                raise PathAbort()
            if len(vals) >= 64:
                raise RuntimeError("symbolic integer with >= 64 feasible values")
            vals.sort()
            for v in vals[1:]:
                self.pending.append(self.decisions[:self.pos] + [("int", v)])
            self.decisions.append(("int", vals[0]))


    def choose_free(self, k):
        """fork k ways on a choice that is not constrained by the solver (schedules)"""
        if self.pos < len(self.decisions):
            d = self.decisions[self.pos]
            assert isinstance(d, tuple) and d[0] == "free"
            self.pos += 1
            self.n_decisions += 1
            return d[1]
        for v in range(1, k):
            self.pending.append(self.decisions[:self.pos] + [("free", v)])
        self.decisions.append(("free", 0))
        self.pos += 1
        self.n_decisions += 1
        return 0


class Path:
    def __init__(self, pc, out, exc, decisions):
        self.pc = pc
        self.out = out
        self.exc = exc
        self.decisions = decisions


def run_paths(fn, pre=(), prefix=(), **kw):
    ex = Explorer(pre, **kw)
    res = ex.run(fn, prefix)
    return res, ex


def prefixes(bits):
    """all forced decision prefixes of the given length (used to split one exploration over processes)"""
    import itertools
    return [list(p) for p in itertools.product([True, False], repeat=bits)]
