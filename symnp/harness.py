"""symnp.harness -- obligations, solver sessions, case scheduling, replay, evidence.

A check = a list of *cases* (functions run in forked worker processes, up to 16 at once).
Each case executes real AOtools code symbolically and discharges *obligations* through
``Ctx.prove``; every obligation is a single z3 query whose expected verdict is `unsat`.
`sat` -> the witness is replayed against the real code with real NumPy; only a reproducing
counterexample is a violation.  `unknown` is INCONCLUSIVE and never counted as discharged.
"""
import argparse
import fnmatch
import hashlib
import json
import math
import multiprocessing
import os
import sys
import time
import traceback

import z3

from . import core
from .core import St, Fr, z

VERIF = os.path.dirname(os.path.dirname(os.path.abspath(__file__)))
REPO = os.environ.get("AOTOOLS_REPO", "/repo")


# ------------------------------------------------------------------ concrete evaluation of terms
class Evaluator:
    """Evaluate z3 real terms numerically (Python floats) under an assignment of the free inputs.
    Defined variables (sqrt, pow, unit pairs, twiddles, reciprocals) are computed from St.sem;
    uninterpreted functions through `ufs` (name -> python callable)."""

    def __init__(self, assign, ufs=None, exact=False):
        self.assign = dict(assign)
        self.ufs = ufs or {}
        self.cache = {}
        self.exact = exact

    def __call__(self, t):
        if isinstance(t, Fr):
            return float(t)
        if isinstance(t, core.Sym):
            r = self(t.re)
            if core.is_zero(t.im):
                return r
            return complex(r, self(t.im))
        return self._ev(t)

    def _ev(self, t):
        i = t.get_id()
        if i in self.cache:
            return self.cache[i]
        # iterative post-order to avoid recursion limits
        stack = [(t, False)]
        while stack:
            e, done = stack.pop()
            ei = e.get_id()
            if ei in self.cache:
                continue
            if not done:
                k = e.decl().kind() if z3.is_app(e) else None
                if z3.is_rational_value(e) or z3.is_int_value(e):
                    self.cache[ei] = e.numerator_as_long() / e.denominator_as_long() if z3.is_rational_value(e) else float(e.as_long())
                    continue
                if z3.is_algebraic_value(e):
                    self.cache[ei] = float(e.approx(20).as_fraction())
                    continue
                if z3.is_const(e) and k == z3.Z3_OP_UNINTERPRETED:
                    self.cache[ei] = self._const(e)
                    continue
                if z3.is_true(e):
                    self.cache[ei] = True
                    continue
                if z3.is_false(e):
                    self.cache[ei] = False
                    continue
                stack.append((e, True))
                for c in e.children():
                    if c.get_id() not in self.cache:
                        stack.append((c, False))
            else:
                self.cache[ei] = self._apply(e, [self.cache[c.get_id()] for c in e.children()])
        return self.cache[i]

    def _const(self, e):
        n = e.decl().name()
        if n in self.assign:
            return float(self.assign[n])
        sem = St.sem.get(n)
        if sem is None:
            raise KeyError("no value for symbol %s" % n)
        kind = sem[0]
        if kind == "const":
            return float(sem[1])
        a = self._ev(sem[1])
        if kind == "sqrt":
            return math.sqrt(a)
        if kind == "pow":
            return a ** (sem[2] / sem[3])
        if kind == "cos":
            return math.cos(a)
        if kind == "sin":
            return math.sin(a)
        if kind == "recip":
            return 1.0 / a
        raise KeyError(kind)

    def _apply(self, e, a):
        k = e.decl().kind()
        if k == z3.Z3_OP_ADD:
            return sum(a)
        if k == z3.Z3_OP_MUL:
            r = 1.0
            for x in a:
                r *= x
            return r
        if k == z3.Z3_OP_SUB:
            r = a[0]
            for x in a[1:]:
                r -= x
            return r
        if k == z3.Z3_OP_UMINUS:
            return -a[0]
        if k in (z3.Z3_OP_DIV, z3.Z3_OP_IDIV):
            return a[0] / a[1]
        if k == z3.Z3_OP_POWER:
            return a[0] ** a[1]
        if k == z3.Z3_OP_ITE:
            return a[1] if a[0] else a[2]
        if k == z3.Z3_OP_TO_REAL:
            return float(a[0])
        if k == z3.Z3_OP_TO_INT:
            return float(math.floor(a[0]))
        if k == z3.Z3_OP_LE:
            return a[0] <= a[1]
        if k == z3.Z3_OP_LT:
            return a[0] < a[1]
        if k == z3.Z3_OP_GE:
            return a[0] >= a[1]
        if k == z3.Z3_OP_GT:
            return a[0] > a[1]
        if k == z3.Z3_OP_EQ:
            return a[0] == a[1]
        if k == z3.Z3_OP_DISTINCT:
            return a[0] != a[1]
        if k == z3.Z3_OP_NOT:
            return not a[0]
        if k == z3.Z3_OP_AND:
            return all(a)
        if k == z3.Z3_OP_OR:
            return any(a)
        if k == z3.Z3_OP_UNINTERPRETED:
            n = e.decl().name()
            if n in self.ufs:
                return self.ufs[n](*a)
            raise KeyError("no interpretation for function %s" % n)
        raise NotImplementedError("evaluator: %s" % e.decl())


def default_ufs():
    import scipy.special

    def kvf(nu):
        return lambda x: float(scipy.special.kv(nu, x))
    return {"kv_5_6": kvf(5. / 6.), "rexp": math.exp, "log10": math.log10}


def free_vars(terms):
    names = set()
    for t in terms:
        if isinstance(t, z3.ExprRef):
            core._consts(t, names)
    return names


# ------------------------------------------------------------------ model -> python values
def model_value(m, t):
    v = m.eval(z(t) if not isinstance(t, z3.ExprRef) else t, model_completion=True)
    if z3.is_rational_value(v):
        return Fr(v.numerator_as_long(), v.denominator_as_long())
    if z3.is_int_value(v):
        return Fr(v.as_long())
    if z3.is_algebraic_value(v):
        return v.approx(30).as_fraction()
    raise ValueError("cannot read model value %s" % v)


# ------------------------------------------------------------------ per-case context
class Ctx:
    """Collects obligations for one case (runs inside a worker process)."""

    def __init__(self, pid, case, tier, timeout_ms=30000):
        self.pid = pid
        self.case = case
        self.tier = tier
        self.timeout_ms = timeout_ms
        self.records = []
        self.samples = []
        self.violations = []
        self.harness_errors = []
        self.fallback = None      # replay(model_reader) used when the symbolic run raises outside any explored path
        self.validated = 0
        self.paths = 0
        self.decisions = 0
        self.solver_s = 0.0
        self.queries = 0
        self.functions = set()
        self.bounds = {}
        self.assumptions = set()
        self.smt_dumps = []
        self.inconclusive = []
        self.nontrivial = set()
        self.max_replayed_violations = 4
        self.unreplayed = []
        self.known = load_known(pid)
        self.known_confirmed = 0

    # -- bookkeeping
    _LISTS = ("records", "samples", "violations", "harness_errors", "inconclusive", "unreplayed", "smt_dumps")
    split_tag = ""

    def mark(self):
        return {k: len(getattr(self, k)) for k in self._LISTS}

    def rollback(self, mark):
        for k, n in mark.items():
            del getattr(self, k)[n:]

    def encoded(self, *fns):
        for f in fns:
            self.functions.add(f if isinstance(f, str) else "%s.%s" % (f.__module__, getattr(f, "__qualname__", f.__name__)))

    def explored(self, ex, npaths):
        self.paths += npaths
        self.decisions += ex.n_decisions
        self.solver_s += ex.solver_s
        self.queries += ex.n_solver
        if ex.inconclusive:
            self.inconclusive.append("%s: %d branch feasibility checks unknown" % (self.case, ex.inconclusive))

    def assume(self, text):
        self.assumptions.add(text)

    # -- raw query
    def check_sat(self, assertions, timeout_ms=None):
        s = z3.Solver()
        s.set("timeout", timeout_ms or self.timeout_ms)
        s.add(assertions)
        t = time.time()
        r = s.check()
        dt = time.time() - t
        self.solver_s += dt
        self.queries += 1
        return str(r), (s.model() if r == z3.sat else None), dt, s

    def lemma(self, hyps, goal, timeout_ms=None):
        """auxiliary solver-proved fact used by the harness itself (e.g. argument unification);
        returns True only on `unsat`."""
        hyps = list(hyps)
        ax = core.axioms_for([goal] + hyps)
        r, _, _, _ = self.check_sat(hyps + ax + [z3.Not(goal)], timeout_ms or 5000)
        return r == "unsat"

    # -- obligations
    def prove(self, name, hyps, goal, replay=None, witness_terms=None, expect="unsat",
              timeout_ms=None, kind="property", axioms=True, extra_axioms=(), replay_on_unknown=False):
        """One obligation: hyps + axioms(cone) + not goal  must be `expect`.
        replay(model_values: dict) -> (reproduced: bool, detail: dict) for unexpected sat."""
        full = "%s/%s%s" % (self.case, self.split_tag, name)
        if kind == "property" and (" raises NotImplementedError" in name or " raises Z3Exception" in name):
            # a path that ended in an engine limitation is not a statement about the code under test
            self.inconclusive.append("%s: not encodable (engine limitation on this path)" % full)
            return "unknown", None
        if replay is not None and kind == "property":
            self.fallback = replay       # the most recent replay also serves if the symbolic run raises later on
        hyps = list(hyps) + list(extra_axioms)
        if expect == "unsat" and (getattr(St, "split_assume", None) or getattr(St, "split_pre", None)):
            hyps += list(St.split_assume) + list(getattr(St, "split_pre", ()))
        ax = core.axioms_for([goal] + hyps) if axioms else []
        asserts = hyps + ax + [z3.Not(goal)]
        verdict, model, dt, solver = self.check_sat(asserts, timeout_ms)
        rec = dict(name=full, kind=kind, expect=expect, verdict=verdict, s=round(dt, 4))
        self.records.append(rec)
        self.nontrivial.add(hashlib.sha1(solver.sexpr().encode()).hexdigest()[:16])
        if len(self.samples) < 2 and kind == "property":
            smt = solver.to_smt2()
            self.samples.append(dict(obligation=full, verdict=verdict, seconds=round(dt, 4),
                                     smtlib2=smt if len(smt) < 3000 else smt[:3000] + " ...[truncated, %d chars]" % len(smt)))
        if len(self.smt_dumps) < 3 and kind == "property" and verdict == "unsat":
            smt = solver.to_smt2()
            if len(smt) < 200000:
                self.smt_dumps.append((full, smt))
        if verdict == "unknown":
            if replay_on_unknown and replay is not None and expect == "unsat":
                # term-identity claims: the two sides are different terms and the solver cannot prove them equal.
                # That alone is no verdict; a replay that shows the real results differ is a violation.
                try:
                    from . import npx
                    with npx.real_code():
                        ok, detail = replay(_ModelReader(None))
                except Exception as e:
                    ok, detail = False, dict(replay_error="%s: %s" % (type(e).__name__, e))
                if ok:
                    rec["replay"] = _jsonable(detail)
                    rec["note"] = "solver verdict unknown on non-identical terms; violation established by the replay on the real code"
                    self.violations.append(dict(obligation=full, witness={}, replay=_jsonable(detail), known=False))
                    return verdict, None
            self.inconclusive.append(full)
            return verdict, None
        if verdict == expect:
            return verdict, model
        if expect == "sat":
            # vacuity / mutant-sensitivity guard failed: the harness cannot distinguish -> harness error
            self.harness_errors.append("%s: expected sat (vacuity/sensitivity guard) but got %s" % (full, verdict))
            return verdict, None
        # unexpected sat on a property obligation: replay on the real code
        wit = {}
        if witness_terms:
            for k, t in witness_terms.items():
                try:
                    wit[k] = _jsonable(_mv(model, t))
                except Exception as e:     # pragma: no cover
                    wit[k] = "unreadable: %s" % e
        rec["witness"] = wit
        is_known = any(fnmatch.fnmatch(full, pat) for k in self.known for pat in k["match"])
        if is_known:
            # a listed finding: confirm by replay twice per case, then list further matching obligations without replay
            if self.known_confirmed >= 2:
                rec["replay"] = "matches a listed known finding already confirmed by replay in this case"
                self.violations.append(dict(obligation=full, witness=wit, replay=rec["replay"]))
                return verdict, model
        elif len([v for v in self.violations if not v.get("known")]) >= self.max_replayed_violations:
            # this case already has confirmed violations; further sat obligations are listed, not replayed
            rec["replay"] = "not replayed: the case already has %d confirmed violations" % len(self.violations)
            self.unreplayed.append(full)
            return verdict, model
        if replay is None:
            self.harness_errors.append("%s: sat but no replay available; witness=%s" % (full, json.dumps(wit)[:400]))
            return verdict, model
        try:
            from . import npx
            with npx.real_code():
                ok, detail = replay(_ModelReader(model))
        except Exception as e:
            self.inconclusive.append("%s: unconfirmed solver witness (replay raised %s: %s)" % (full, type(e).__name__, str(e)[:300]))
            rec["replay_error"] = traceback.format_exc()[-1500:]
            return verdict, model
        rec["replay"] = _jsonable(detail)
        tries = 0
        wts = [z(t.re) if isinstance(t, core.Sym) else t for t in (witness_terms or {}).values()]
        wts = [t for t in wts if isinstance(t, z3.ExprRef)]
        used = [model]
        while not ok and tries < 3 and wts:
            # the first model may sit on a degenerate parameter choice (e.g. two spacings equal) where the
            # flagged difference does not show; ask for a more generic witness of the same query and replay that
            tries += 1
            extra = []
            for t in wts:
                for mu in used:
                    extra.append(t != mu.eval(t, model_completion=True))
            if len(wts) > 1:
                extra.append(z3.Distinct(*wts))
            v2, m2, _, _ = self.check_sat(asserts + extra, timeout_ms)
            if v2 != "sat":
                break
            used.append(m2)
            try:
                from . import npx
                with npx.real_code():
                    ok, detail = replay(_ModelReader(m2))
            except Exception as e:
                self.inconclusive.append("%s: unconfirmed solver witness (replay raised %s: %s)" % (full, type(e).__name__, str(e)[:300]))
                return verdict, model
            if ok:
                wit = {k: _jsonable(_mv(m2, t)) for k, t in (witness_terms or {}).items()}
                rec["witness"] = wit
                rec["replay"] = _jsonable(detail)
                model = m2
        if ok:
            self.violations.append(dict(obligation=full, witness=wit, replay=_jsonable(detail), known=bool(is_known)))
            if is_known:
                self.known_confirmed += 1
        else:
            # the encoding (or a stub) is more permissive than the real code here: not a violation, not decided either
            self.inconclusive.append("%s: unconfirmed solver witness (did not reproduce on the real code: %s)" % (full, json.dumps(_jsonable(detail))[:500]))
        return verdict, model

    def validate(self, name, sym_val, real_val, tol=1e-7):
        """translation validation of one harness/stub: symbolic result evaluated at a concrete
        assignment vs. the real function on real NumPy."""
        import numpy
        if callable(real_val):
            from . import npx
            with npx.real_code():
                real_val = real_val()
        a = numpy.asarray(sym_val, dtype=complex)
        b = numpy.asarray(real_val, dtype=complex)
        if a.shape != b.shape and getattr(St, "split_assume", None):
            return False
        if a.shape != b.shape:
            self.harness_errors.append("%s/validate %s: shape %s vs %s" % (self.case, name, a.shape, b.shape))
            return False
        scale = max(1.0, float(numpy.max(numpy.abs(b))) if b.size else 1.0)
        err = float(numpy.max(numpy.abs(a - b))) if a.size else 0.0
        if not (err <= tol * scale) and getattr(St, "split_assume", None):
            # sub-case under an assumed branch outcome: the fixed validation point need not satisfy the assumption
            self.bounds["validation_points_outside_assumed_branch_outcome"] = self.bounds.get("validation_points_outside_assumed_branch_outcome", 0) + 1
            return False
        if not (err <= tol * scale):
            self.harness_errors.append("%s/validate %s: symbolic encoding disagrees with the real code (max err %.3g)" % (self.case, name, err))
            return False
        self.validated += 1
        return True

    def result(self):
        return dict(case=self.case, records=self.records, samples=self.samples, violations=self.violations,
                    harness_errors=self.harness_errors, validated=self.validated, paths=self.paths,
                    decisions=self.decisions, solver_s=self.solver_s, queries=self.queries,
                    functions=sorted(self.functions), bounds=self.bounds, assumptions=sorted(self.assumptions | set(St.notes)),
                    inconclusive=self.inconclusive, smt_dumps=self.smt_dumps, nontrivial=sorted(self.nontrivial),
                    absorbed=St.absorbed, float_evals=St.float_evals, unreplayed=self.unreplayed)


class _ModelReader:
    def __init__(self, m):
        self.m = m

    def __call__(self, t, as_float=True):
        if self.m is None:
            self.m = _GenericModel()
        import numpy
        if isinstance(t, numpy.ndarray):
            out = numpy.empty(t.shape, dtype=complex)
            for i in numpy.ndindex(*t.shape):
                out[i] = self(t[i])
            if numpy.all(out.imag == 0):
                return out.real.copy()
            return out
        if isinstance(t, (list, tuple)):
            return [self(x) for x in t]
        if isinstance(t, core.Sym):
            r = float(_mv(self.m, t.re))
            if core.is_zero(t.im):
                return r
            return complex(r, float(_mv(self.m, t.im)))
        return float(_mv(self.m, t))

    def frac(self, t):
        if isinstance(t, core.Sym):
            t = t.re
        return _mv(self.m, t)


class _GenericModel:
    """stands in for a solver model when there is none (verdict unknown, or the symbolic run raised before any query):
    every free constant gets a fixed generic positive value (distinct per name), uninterpreted functions whatever the
    solver's model completion gives"""

    def __init__(self):
        self.cache = {}

    def value_of(self, t):
        import hashlib
        names = set()
        core._consts(t, names)
        s = z3.Solver()
        for nm in sorted(names):
            if nm not in self.cache:
                h = int(hashlib.md5(nm.encode()).hexdigest()[:6], 16)
                self.cache[nm] = Fr(3, 4) + Fr(h % 997, 1000)
            s.add(z3.Real(nm) == z3.RealVal(str(self.cache[nm])))
        if s.check() != z3.sat:
            raise ValueError("no generic value")
        return model_value(s.model(), t)


def _mv(m, t):
    if isinstance(t, Fr):
        return t
    if isinstance(m, _GenericModel):
        if isinstance(t, core.Sym):
            t = t.re
            if isinstance(t, Fr):
                return t
        return m.value_of(t)
    if isinstance(t, core.Sym):
        t = t.re
        if isinstance(t, Fr):
            return t
    return model_value(m, t)


def _jsonable(x):
    import numpy
    if isinstance(x, Fr):
        return float(x) if x.denominator != 1 else int(x)
    if isinstance(x, dict):
        return {str(k): _jsonable(v) for k, v in x.items()}
    if isinstance(x, (list, tuple)):
        return [_jsonable(v) for v in x]
    if isinstance(x, numpy.ndarray):
        return _jsonable(x.tolist())
    if isinstance(x, (numpy.floating,)):
        return float(x)
    if isinstance(x, (numpy.integer,)):
        return int(x)
    if isinstance(x, (numpy.bool_,)):
        return bool(x)
    if isinstance(x, complex):
        return [x.real, x.imag]
    if isinstance(x, (str, int, float, bool)) or x is None:
        if isinstance(x, float) and (x != x or x in (float("inf"), float("-inf"))):
            return repr(x)
        return x
    return repr(x)


# ------------------------------------------------------------------ pristine replays
class Pristine:
    """A server process forked from the worker *before* any code under test has run.  Each request is
    executed in a further fork of that pristine state, so a replay never sees module-level state (caches,
    RNG state) left behind by the symbolic run or by an earlier replay."""

    def __init__(self):
        import multiprocessing as mp
        self.conn, child = mp.Pipe()
        self.pid = os.fork()
        if self.pid == 0:
            self.conn.close()
            try:
                self._serve(child)
            finally:
                os._exit(0)
        child.close()

    @staticmethod
    def _serve(conn):
        import importlib
        import multiprocessing as mp
        while True:
            try:
                req = conn.recv()
            except EOFError:
                return
            if req is None:
                return
            modname, fname, args = req[:3]
            raw = len(req) > 3 and req[3]
            r, w = mp.Pipe(duplex=False)
            p = os.fork()
            if p == 0:
                try:
                    IN_PRISTINE[0] = True
                    fn = getattr(importlib.import_module(modname), fname)
                    res = fn(*args)
                    w.send(("ok", res if raw else _jsonable_pair(res)))
                except BaseException as e:   # noqa
                    w.send(("error", "%s: %s" % (type(e).__name__, e)))
                finally:
                    os._exit(0)
            w.close()
            try:
                res = r.recv()
            except EOFError:
                res = ("error", "replay process died")
            os.waitpid(p, 0)
            conn.send(res)

    def call(self, fn, *args):
        self.conn.send((fn.__module__, fn.__name__, args))
        status, payload = self.conn.recv()
        if status != "ok":
            raise RuntimeError("pristine replay failed: %s" % payload)
        return payload[0], payload[1]

    def eval(self, fn, *args):
        """fn(*args) in a fork of the pristine state; the (picklable) return value is passed back unchanged"""
        self.conn.send((fn.__module__, fn.__name__, args, True))
        status, payload = self.conn.recv()
        if status != "ok":
            raise RuntimeError("pristine evaluation failed: %s" % payload)
        return payload

    def close(self):
        try:
            self.conn.send(None)
            self.conn.close()
            os.waitpid(self.pid, 0)
        except Exception:
            pass


def _jsonable_pair(res):
    ok, detail = res
    return bool(ok), _jsonable(detail)


PRISTINE = None


def pristine_call(fn, *args):
    """run fn(*args) -> (bool, detail) on the real code in a process forked from the pristine worker state"""
    if PRISTINE is None or IN_PRISTINE[0]:
        return fn(*args)
    return PRISTINE.call(fn, *args)


IN_PRISTINE = [False]


def auto_pristine(module):
    """Every module-level replay function of a check (replay* / _replay*) is run in a fork of the pristine worker
    state: a replay on the real code never sees module-level state (caches, class attributes, RNG state) that the
    symbolic run or an earlier replay left behind.  Arguments that cannot be pickled fall back to a direct call."""
    import functools
    import inspect
    import pickle
    for name, fn in list(vars(module).items()):
        if not (inspect.isfunction(fn) and (name.startswith("replay") or name.startswith("_replay"))):
            continue
        if getattr(fn, "_auto_pristine", False) or fn.__module__ != module.__name__:
            continue
        if "pristine_eval" in fn.__code__.co_names or "pristine_call" in fn.__code__.co_names:
            continue        # manages its own pristine processes (several forks of the pristine state in one replay)
        impl_name = name + "__impl"
        fn.__name__ = impl_name
        fn.__qualname__ = impl_name
        setattr(module, impl_name, fn)

        def make(fn=fn, name=name):
            @functools.wraps(fn)
            def wrapper(*args, **kw):
                if PRISTINE is None or IN_PRISTINE[0] or kw:
                    return fn(*args, **kw)
                try:
                    pickle.dumps(args)
                except Exception:
                    return fn(*args)
                return PRISTINE.eval(fn, *args)
            wrapper.__name__ = name
            wrapper.__qualname__ = name
            wrapper._auto_pristine = True
            return wrapper
        setattr(module, name, make())


def pristine_eval(fn, *args):
    if PRISTINE is None:
        return fn(*args)
    return PRISTINE.eval(fn, *args)


# ------------------------------------------------------------------ case scheduler
class CaseBudget(BaseException):
    """raised inside a worker shortly before the parent's wall-clock limit: what was decided so far is reported"""


MAX_SPLIT_LEAVES = 32


def _worker(fn, pid, name, tier, kwargs, conn, soft_limit=None):
    global PRISTINE
    if soft_limit:
        import signal

        def _alarm(signum, frame):
            raise CaseBudget()
        try:
            signal.signal(signal.SIGALRM, _alarm)
            signal.alarm(max(1, int(soft_limit)))
        except Exception:
            pass
    try:
        PRISTINE = Pristine()
    except Exception:
        PRISTINE = None
    ctx = None
    try:
        mode = kwargs.pop("_mode", "REAL")
        St.reset(mode)
        St.split_assume = []
        ctx = Ctx(pid, name, tier)
        # value-dependent branches met outside an Explorer: the case is re-run once per outcome (at most MAX_SPLIT_LEAVES
        # sub-cases), each outcome added to the hypotheses of every property obligation of that sub-case
        todo, leaves, attempt = [[]], 0, 0
        while todo:
            A = todo.pop(0)
            notes = set(St.notes)
            St.reset(mode)
            St.notes |= notes
            St.split_assume = list(A)
            St.split_pre = []
            ctx.split_tag = ("[branch outcome %d] " % attempt) if A else ""
            mark = ctx.mark()
            attempt += 1
            try:
                fn(ctx, **dict(kwargs))
                leaves += 1
            except core.SplitNeeded as e:
                if leaves + len(todo) + 2 > MAX_SPLIT_LEAVES:
                    raise
                ctx.rollback(mark)
                ctx.bounds["value_dependent_branches_split"] = ctx.bounds.get("value_dependent_branches_split", 0) + 1
                todo += [A + [e.cond], A + [z3.Not(e.cond)]]
        St.split_assume = []
        conn.send(("ok", ctx.result()))
    except BaseException as e:
        msg = "%s: %s" % (type(e).__name__, e)
        if ctx is not None and isinstance(e, CaseBudget):
            ctx.inconclusive.append("%s: case time budget reached; the remaining obligations of this case were not decided" % name)
            try:
                conn.send(("ok", ctx.result()))
            except Exception:
                conn.send(("error", msg))
        elif ctx is not None and getattr(ctx, "fallback", None) is not None and not isinstance(e, (KeyboardInterrupt, SystemExit, MemoryError)):
            # the code under test (or the encoding) raised outside any explored path: ask the real code, on generic inputs
            full = "%s/raises %s before any obligation" % (name, type(e).__name__)
            try:
                from . import npx
                with npx.real_code():
                    ok, detail = ctx.fallback(_ModelReader(None))
            except Exception as e2:
                if (type(e2).__name__ == type(e).__name__ or ("pristine" in str(e2) and type(e).__name__ + ":" in str(e2))) and not _encoding_limit(e2):
                    # the replay drives the real code: it fails there with the same exception as in the symbolic run
                    ok, detail = True, dict(what="the real code raises %s: %s (generic inputs)" % (type(e2).__name__, str(e2)[:200]))
                else:
                    ok, detail = False, dict(replay_error="%s: %s" % (type(e2).__name__, e2))
            if ok:
                ctx.records.append(dict(name=full, kind="property", verdict="sat", expect="unsat", note="symbolic run raised %s; violation established by the replay on the real code" % msg[:200], replay=_jsonable(detail)))
                ctx.violations.append(dict(obligation=full, witness={}, replay=_jsonable(detail), known=False))
            else:
                ctx.inconclusive.append("%s: the symbolic run raised %s and the real code passes the replay on generic inputs: not decided" % (name, msg[:200]))
            try:
                conn.send(("ok", ctx.result()))
            except Exception:
                conn.send(("error", msg))
        elif ctx is not None and _encoding_limit(e):
            # the encoding cannot follow this code shape: the rest of the case is not decided (what was proved stays)
            ctx.inconclusive.append("%s: not encodable beyond this point (%s)" % (name, msg[:300]))
            try:
                conn.send(("ok", ctx.result()))
            except Exception:
                conn.send(("error", msg))
        else:
            conn.send(("error", "%s\n%s" % (msg, traceback.format_exc()[-3000:])))
    finally:
        if PRISTINE is not None:
            PRISTINE.close()
        conn.close()


def _encoding_limit(e):
    """exceptions that mean 'the symbolic encoding does not cover this construct' (not a failure of the code under test)"""
    if isinstance(e, NotImplementedError):
        return True
    if isinstance(e, RuntimeError) and ("symbolic branch outside an Explorer" in str(e) or "path budget exceeded" in str(e)):
        return True
    if isinstance(e, z3.Z3Exception):
        return True
    return False


def run_cases(pid, tier, cases, jobs=None, case_timeout=600):
    """cases: list of (name, fn, kwargs).  Returns list of result dicts (in case order)."""
    jobs = jobs or int(os.environ.get("VERIF_JOBS", "0")) or min(16, os.cpu_count() or 4)
    mp = multiprocessing.get_context("fork")
    pending = list(enumerate(cases))
    running = {}
    results = [None] * len(cases)
    while pending or running:
        while pending and len(running) < jobs:
            i, (name, fn, kw) = pending.pop(0)
            pc, cc = mp.Pipe(duplex=False)
            p = mp.Process(target=_worker, args=(fn, pid, name, tier, dict(kw), cc, max(30, case_timeout - 75)))
            p.start()
            cc.close()
            running[i] = (p, pc, time.time(), name)
        time.sleep(0.02)
        for i in list(running):
            p, pc, t0, name = running[i]
            got = None
            if pc.poll():
                try:
                    got = pc.recv()
                except EOFError:
                    got = ("error", "worker died without a result")
            elif not p.is_alive():
                got = ("error", "worker exited (code %s) without a result" % p.exitcode)
            elif time.time() - t0 > case_timeout:
                p.kill()
                got = ("timeout", "case exceeded %ds wall clock" % case_timeout)
            if got is None:
                continue
            p.join(timeout=5)
            if p.is_alive():
                p.kill()
            del running[i]
            status, payload = got
            if status == "ok":
                payload["wall_s"] = round(time.time() - t0, 2)
                results[i] = payload
            elif status == "timeout":
                results[i] = dict(case=name, records=[], samples=[], violations=[], harness_errors=[], validated=0,
                                  paths=0, decisions=0, solver_s=0.0, queries=0, functions=[], bounds={}, assumptions=[],
                                  inconclusive=["%s: %s" % (name, payload)], smt_dumps=[], nontrivial=[], wall_s=case_timeout,
                                  absorbed=0, float_evals=0)
            else:
                results[i] = dict(case=name, records=[], samples=[], violations=[], harness_errors=["%s: %s" % (name, payload)],
                                  validated=0, paths=0, decisions=0, solver_s=0.0, queries=0, functions=[], bounds={},
                                  assumptions=[], inconclusive=[], smt_dumps=[], nontrivial=[], wall_s=0, absorbed=0, float_evals=0)
    return results


# ------------------------------------------------------------------ cvc5 cross-check
def cvc5_crosscheck(dumps, limit=4, timeout_ms=10000):
    """re-run a sample of `unsat` obligations with cvc5; returns (agree, unknown, disagree list)"""
    agree = unknown = 0
    disagree = []
    try:
        import cvc5
    except Exception:
        return 0, 0, [], "cvc5 python module unavailable"
    for name, smt in dumps[:limit]:
        try:
            tm = cvc5.TermManager() if hasattr(cvc5, "TermManager") else None
            slv = cvc5.Solver(tm) if tm is not None else cvc5.Solver()
            slv.setOption("tlimit-per", str(timeout_ms))
            slv.setLogic("ALL")
            parser = cvc5.InputParser(slv)
            text = "\n".join(l for l in smt.splitlines() if not l.startswith("(check-sat") and not l.startswith("(set-info"))
            parser.setStringInput(cvc5.InputLanguage.SMT_LIB_2_6, text, "q")
            sm = parser.getSymbolManager()
            while True:
                cmd = parser.nextCommand()
                if cmd.isNull():
                    break
                cmd.invoke(slv, sm)
            r = slv.checkSat()
            if r.isUnsat():
                agree += 1
            elif r.isSat():
                disagree.append(name)
            else:
                unknown += 1
        except Exception as e:
            unknown += 1
    return agree, unknown, disagree, ""


# ------------------------------------------------------------------ known findings
def load_known(pid):
    path = os.path.join(VERIF, "known_findings.json")
    if not os.path.exists(path):
        return []
    data = json.load(open(path))
    return [f for f in data.get("findings", []) if f.get("property") == pid and f.get("status", "open") == "open"]


def file_hashes(paths):
    out = {}
    for p in paths:
        fp = os.path.join(REPO, p)
        try:
            out[p] = hashlib.sha256(open(fp, "rb").read()).hexdigest()[:16]
        except OSError:
            out[p] = "missing"
    return out


# ------------------------------------------------------------------ the check driver
def main(pid, build_cases, files, replays=None, level="model_checking", notes=None, argv=None):
    """build_cases(tier) -> list of (name, fn, kwargs).  replays: dict kind -> fn(witness)->(bool, detail)."""
    ap = argparse.ArgumentParser()
    ap.add_argument("--tier", default=os.environ.get("VERIF_TIER", "quick"), choices=["quick", "thorough"])
    ap.add_argument("--replay", default=None)
    ap.add_argument("--only", default=None, help="fnmatch pattern on case names")
    ap.add_argument("--jobs", type=int, default=None)
    args = ap.parse_args(argv)
    seed = int(os.environ.get("VERIF_SEED", "0") or 0)
    replay_only = None
    if args.replay:
        # a replay file names the obligation that failed: the case it belongs to is decided again on the CURRENT tree
        # (symbolic run, query, and - if the solver still finds a witness - the replay on the real code)
        try:
            rec = json.load(open(args.replay))
        except Exception as e:
            print("cannot read %s: %s" % (args.replay, e))
            return 2
        ob = rec.get("obligation", "")
        print("replaying obligation: %s" % ob)
        print("recorded witness/replay: %s" % json.dumps(rec.get("replay"))[:600])
        replay_only = ob
    t0 = time.time()
    auto_pristine(sys.modules[build_cases.__module__])
    cases = build_cases(args.tier)
    if replay_only is not None:
        names = {}
        for tier_ in ("quick", "thorough"):
            for c in build_cases(tier_):
                names.setdefault(c[0], c)
        hit = [c for n_, c in names.items() if replay_only == n_ or replay_only.startswith(n_ + "/")]
        if not hit:
            print("no case of %s matches this obligation" % pid)
            return 2
        hit.sort(key=lambda c: -len(c[0]))
        cases = hit[:1]
    if args.only:
        cases = [c for c in cases if fnmatch.fnmatch(c[0], args.only)]
    case_timeout = 300 if args.tier == "quick" else 3600
    results = run_cases(pid, args.tier, cases, jobs=args.jobs, case_timeout=case_timeout)
    wall = time.time() - t0

    known = load_known(pid)
    records = [r for res in results for r in res["records"]]
    violations = [v for res in results for v in res["violations"]]
    herrors = [h for res in results for h in res["harness_errors"]]
    inconcl = [h for res in results for h in res["inconclusive"]]
    prop = [r for r in records if r["kind"] == "property"]
    guards = [r for r in records if r["kind"] != "property"]
    discharged = sum(1 for r in prop if r["verdict"] == "unsat")
    dumps = [d for res in results for d in res["smt_dumps"]]
    # deterministic sample for cross-check
    dumps.sort(key=lambda d: hashlib.sha1((str(seed) + d[0]).encode()).hexdigest())
    cv_agree, cv_unknown, cv_dis, cv_note = cvc5_crosscheck(dumps, limit=3 if args.tier == "quick" else 8)
    for name in cv_dis:
        herrors.append("cvc5 reports sat where z3 reports unsat: %s" % name)

    new_viol, known_hits = [], []
    for v in violations:
        hit = None
        for k in known:
            if any(fnmatch.fnmatch(v["obligation"], pat) for pat in k["match"]):
                hit = k
                break
        if hit:
            known_hits.append((hit, v))
        else:
            new_viol.append(v)
    lines = []
    seen_known = set()
    for k, v in known_hits:
        if k["id"] not in seen_known:
            seen_known.add(k["id"])
            lines.append("KNOWN-FINDING: property=%s %s [%s; e.g. obligation %s]" % (pid, k["what"], k["id"], v["obligation"]))
    os.makedirs(os.path.join(VERIF, "replays"), exist_ok=True)
    for v in new_viol:
        h = hashlib.sha1(json.dumps(v, sort_keys=True, default=str).encode()).hexdigest()[:10]
        path = os.path.join(VERIF, "replays", "%s-%s.json" % (pid, h))
        json.dump(dict(property=pid, **v), open(path, "w"), indent=1, default=str)
        lines.append("VIOLATION property=%s replay=%s" % (pid, path))
        lines.append("  obligation %s witness %s" % (v["obligation"], json.dumps(v.get("witness"))[:300]))

    coverage = dict(
        states=max(1, sum(res["paths"] for res in results)),
        transitions=max(1, sum(res["decisions"] for res in results) + len(records)),
        traces_validated_against_impl=sum(res["validated"] for res in results),
        samples=[s for res in results for s in res["samples"]][:6] or [dict(note="no property obligation sample recorded")],
        obligations=len(prop),
        discharged=discharged,
        inconclusive=len(inconcl),
        inconclusive_list=inconcl[:40],
        known_finding_obligations=sorted(v["obligation"] for k, v in known_hits)[:60],
        vacuity_and_sensitivity_guards=dict(total=len(guards), ok=sum(1 for r in guards if r["verdict"] == r["expect"])),
        evaluations=len(records),
        distinct_nontrivial=len(set(h for res in results for h in res["nontrivial"])),
        rule="one evaluation = one SMT query for an obligation (property, vacuity or sensitivity guard); distinct = distinct query text (sha1 of the solver's assertion set)",
        solver_queries_total=sum(res["queries"] for res in results),
        solver_seconds=round(sum(res["solver_s"] for res in results), 2),
        solver="z3 %s (in-process), per-query timeout; cvc5 cross-check of a sample: agree=%d unknown=%d disagree=%d %s" % (
            z3.get_version_string(), cv_agree, cv_unknown, len(cv_dis), cv_note),
        functions_encoded=sorted(set(f for res in results for f in res["functions"])),
        source_sha256_16=file_hashes(files),
        bounds={res["case"]: res["bounds"] for res in results if res["bounds"]},
        cases=[dict(case=res["case"], obligations=len(res["records"]), paths=res["paths"], wall_s=res.get("wall_s"),
                    solver_s=round(res["solver_s"], 2)) for res in results],
        regularisers_absorbed=sum(res.get("absorbed", 0) for res in results),
        concrete_float_evaluations=sum(res.get("float_evals", 0) for res in results),
        exhaustive=False,
        harness_errors=herrors[:20],
        sat_obligations_not_replayed=[u for res in results for u in res.get("unreplayed", [])][:40],
    )
    if notes:
        coverage["explanation"] = notes
    evidence = dict(property_id=pid, tier=args.tier, seed=seed, level=level, coverage=coverage,
                    assumptions=sorted(set(a for res in results for a in res["assumptions"])),
                    wall_s=round(wall, 2), violations=len(new_viol),
                    known_findings_reported=sorted(seen_known))
    os.makedirs(os.path.join(VERIF, "evidence"), exist_ok=True)
    if replay_only is None and not args.only and not os.environ.get("VERIF_NO_EVIDENCE"):
        json.dump(evidence, open(os.path.join(VERIF, "evidence", "%s.json" % pid), "w"), indent=1, default=str)

    print("%s tier=%s cases=%d obligations=%d discharged=%d inconclusive=%d known=%d paths=%d queries=%d solver=%.1fs wall=%.1fs" % (
        pid, args.tier, len(cases), len(prop), discharged, len(inconcl), len(known_hits), coverage["states"],
        coverage["solver_queries_total"], coverage["solver_seconds"], wall))
    for l in inconcl[:30]:
        print("INCONCLUSIVE: %s" % l)
    for l in lines:
        print(l)
    if not herrors and inconcl and discharged == 0 and not new_viol and not known_hits:
        herrors = ["nothing was decided: every obligation is inconclusive (the encoding does not cover this code)"]
    if herrors:
        for h in herrors[:30]:
            print("HARNESS-ERROR: %s" % h)
        sys.stdout.flush()
        return 2 if not new_viol else 1
    sys.stdout.flush()
    return 1 if new_viol else 0


def do_replay(pid, path, replays):
    v = json.load(open(path))
    ob = v["obligation"]
    for pat, fn in replays.items():
        if fnmatch.fnmatch(ob, pat):
            ok, detail = fn(v.get("witness", {}), v)
            print(json.dumps(_jsonable(detail), indent=1))
            if ok:
                print("VIOLATION property=%s replay=%s" % (pid, path))
                return 1
            print("replay: property holds on this witness")
            return 0
    print("no replay function registered for %s; stored replay record:" % ob)
    print(json.dumps(v.get("replay"), indent=1))
    return 1 if v.get("replay") else 2
