"""symnp.npx -- the NumPy/SciPy/multiprocessing proxies that the code under test sees.

Everything structural is forwarded to the real NumPy (which works on object arrays of Sym);
array constructors return object arrays (``SA``); foreign kernels are stubbed by contract:

  fft.*            explicit DFT with exact twiddles (rational for N | 4, algebraic otherwise)
  linalg.inv/pinv(rcond=0)/cho_factor+cho_solve   adjugate * dinv, single axiom dinv*det == 1
  linalg.svd       spectral-factorisation stub (fresh U, sigma >= 0, axioms U diag(s^2) U^T = M)
  special.kv/gamma uninterpreted (kv keyed by canonical argument), gamma constants as named reals
  random           stream model: draw(stream_id, index) uninterpreted
  multiprocessing  in-process Pool whose execution order is forked
"""
import contextlib
import itertools
import math
import types

import numpy
import scipy
import scipy.linalg
import scipy.special
import z3

from . import core
from .core import Sym, SA, St, Fr, obj, z, conc, canon, SymBool

_real_float = float
_real_int = int
_real_round = round


# ------------------------------------------------------------------ helpers
def _has_sym(x):
    if isinstance(x, Sym):
        return True
    if isinstance(x, numpy.ndarray):
        return core.raw_dtype(x) == object
    if isinstance(x, (list, tuple)):
        return any(_has_sym(e) for e in x)
    return False


def const_arr(a):
    """real numeric ndarray -> SA with exact Sym constants (ints/bools stay native)"""
    a = numpy.asarray(a)
    if core.raw_dtype(a) == object:
        return obj(a)
    if a.dtype.kind in "fc":
        return obj(a)
    return a


def _map(f, x):
    if isinstance(x, numpy.ndarray):
        out = numpy.empty(x.shape, dtype=object)
        for i in numpy.ndindex(*x.shape):
            out[i] = f(Sym.lift(x[i]))
        return out.view(SA) if x.ndim else out[()]
    if isinstance(x, (list, tuple)):
        return _map(f, numpy.array(x, dtype=object))
    return f(Sym.lift(x))


# ------------------------------------------------------------------ twiddles / DFT
_ROOTS = {}


def _root(q):
    """(cos 2pi/q, sin 2pi/q) as Sym parts, exact/algebraic"""
    if q in _ROOTS and _ROOTS[q][2] is St.defs:
        return _ROOTS[q][0], _ROOTS[q][1]
    if q == 1:
        c, s = Fr(1), Fr(0)
    elif q == 2:
        c, s = Fr(-1), Fr(0)
    elif q == 4:
        c, s = Fr(0), Fr(1)
    else:
        c = z3.Real("twc!%d" % q)
        s = z3.Real("tws!%d" % q)
        cf, sf = math.cos(2 * math.pi / q), math.sin(2 * math.pi / q)
        eps = Fr(1, 10 ** 6)
        ax = [c * c + s * s == 1, s > 0]
        if q == 3:
            c = Fr(-1, 2)
            ax = [s > 0, s * s == Fr(3, 4)]
        elif q == 6:
            c = Fr(1, 2)
            ax = [s > 0, s * s == Fr(3, 4)]
        elif q == 8:
            ax = [c > 0, c * c == Fr(1, 2), s == c]
        elif q == 12:
            s = Fr(1, 2)
            ax = [c > 0, c * c == Fr(3, 4)]
        elif q == 5:
            ax = [c > 0, 4 * c * c + 2 * c - 1 == 0, s > 0, s * s == 1 - c * c]
        elif q == 10:
            ax = [c > 0, 4 * c * c - 2 * c - 1 == 0, s > 0, s * s == 1 - c * c]
        elif q == 7:
            ax = [c > Fr(6, 10), c < Fr(65, 100), 8 * c * c * c + 4 * c * c - 4 * c - 1 == 0, s > 0, s * s == 1 - c * c]
        elif q == 9:
            ax = [c > Fr(76, 100), c < Fr(77, 100), 8 * c * c * c - 6 * c + 1 == 0, s > 0, s * s == 1 - c * c]
        elif q & (q - 1):
            # no small minimal polynomial at hand and not a power of two: the root of unity is taken in floating point
            # (as NumPy's transform does); identities that rely on exact cancellation are then outside (tolerance only)
            c, s = Fr(cf), Fr(sf)
            ax = []
            St.notes.add("DFT lengths with a prime factor > 7 (other than handled cases): twiddle factors are the double-precision cos/sin values")
        else:
            w = Sym(c, s)
            wq = w._ipow(q)
            ax = [c * c + s * s == 1, z(wq.re) == 1, z(wq.im) == 0,
                  c > z(Fr(cf) - eps), c < z(Fr(cf) + eps), s > z(Fr(sf) - eps), s < z(Fr(sf) + eps)]
        for v, kind in ((c, "cos"), (s, "sin")):
            if not conc(v):
                St.defs[v.decl().name()] = (ax, [])
                St.sem[v.decl().name()] = (kind, z3.RealVal(2) * z3.RealVal(str(Fr(math.pi))) / q)
    _ROOTS[q] = (c, s, St.defs)
    return c, s


_TW = {}


def _float_root(q):
    return q not in (1, 2, 3, 4, 5, 6, 7, 8, 9, 10, 12) and bool(q & (q - 1))


def twiddle(N, k):
    """exp(+2 pi i k / N) as a Sym"""
    k %= N
    g = math.gcd(k, N) if k else N
    p, q = (k // g, N // g) if k else (0, 1)
    key = (p, q, id(St.defs))
    if key in _TW:
        return _TW[key]
    if p == 0:
        out = Sym(1)
    elif 2 * p > q:
        out = twiddle(q, q - p).conjugate()
    elif _float_root(q):
        _root(q)          # (records the note)
        out = Sym(Fr(math.cos(2 * math.pi * p / q)), Fr(math.sin(2 * math.pi * p / q)))
    else:
        c, s = _root(q)
        out = Sym(c, s)._ipow(p)
    _TW[key] = out
    return out


def dft_axis(a, axis=-1, inverse=False, n=None):
    a = obj(a)
    a = numpy.moveaxis(a, axis, -1)
    N0 = a.shape[-1]
    N = N0 if n is None else int(n)
    if N != N0:       # zero-pad / truncate
        b = numpy.empty(a.shape[:-1] + (N,), dtype=object)
        b.fill(Sym(0))
        m = min(N, N0)
        b[..., :m] = a[..., :m]
        a = b
    out = numpy.empty(a.shape, dtype=object)
    for idx in numpy.ndindex(*a.shape[:-1]):
        row = [a[idx + (j,)] for j in range(N)]
        for k in range(N):
            acc = Sym(0)
            for j in range(N):
                e = Sym.lift(row[j])
                if e.isconc() and e.re == 0 and e.im == 0:
                    continue
                acc = acc + twiddle(N, (k * j) if inverse else (-k * j)) * e
            out[idx + (k,)] = acc / N if inverse else acc
    return numpy.moveaxis(out, -1, axis).view(SA)


def _norm_scale(norm, n, inverse):
    """numpy's norm= argument as a scale factor relative to the default ("backward") convention"""
    if norm in (None, "backward"):
        return None
    if norm == "ortho":
        return core.sym_sqrt(Sym(n)) if inverse else Sym(1) / core.sym_sqrt(Sym(n))
    if norm == "forward":
        return Sym(n) if inverse else Sym(1) / Sym(n)
    raise ValueError("Invalid norm value %r" % (norm,))


def _dft_n(a, axes, inverse, s=None, norm=None):
    a = obj(a)
    if axes is None:
        axes = tuple(range(a.ndim)) if s is None else tuple(range(a.ndim - len(s), a.ndim))
    axes = tuple(axes)
    s = tuple(s) if s is not None else (None,) * len(axes)
    out = a
    tot = 1
    for ax, n in zip(axes, s):
        out = dft_axis(out, ax, inverse, n)
        tot *= out.shape[ax]
    sc = _norm_scale(norm, tot, inverse)
    return out if sc is None else (out * sc).view(SA)


def _fft_kw(fn):
    """the transforms accept NumPy 2's out= and scipy.fft's overwrite_x= / workers= / plan= (in-place operation is an
    optimisation of the real libraries: here the result is written into out= when one is given)"""
    import functools

    @functools.wraps(fn)
    def wrapper(*a, out=None, overwrite_x=False, workers=None, plan=None, **kw):
        r = fn(*a, **kw)
        if out is not None:
            out[...] = r
            return out
        return r
    return staticmethod(wrapper)


def _im_zero(e):
    e = Sym.lift(e)
    im = e.im
    try:
        return bool(im == 0) if isinstance(im, (int, float, Fr)) else False
    except Exception:
        return False


class FFT:
    fftshift = staticmethod(numpy.fft.fftshift)
    ifftshift = staticmethod(numpy.fft.ifftshift)

    @_fft_kw
    def fft(a, n=None, axis=-1, norm=None):
        return _dft_n(a, (axis,), False, (n,), norm)

    @_fft_kw
    def ifft(a, n=None, axis=-1, norm=None):
        return _dft_n(a, (axis,), True, (n,), norm)

    @_fft_kw
    def fft2(a, s=None, axes=(-2, -1), norm=None):
        return _dft_n(a, axes, False, s, norm)

    @_fft_kw
    def ifft2(a, s=None, axes=(-2, -1), norm=None):
        return _dft_n(a, axes, True, s, norm)

    @_fft_kw
    def fftn(a, s=None, axes=None, norm=None):
        return _dft_n(a, axes, False, s, norm)

    @_fft_kw
    def ifftn(a, s=None, axes=None, norm=None):
        return _dft_n(a, axes, True, s, norm)

    @_fft_kw
    def rfftn(a, s=None, axes=None, norm=None):
        a = obj(a)
        if axes is None:
            axes = tuple(range(a.ndim)) if s is None else tuple(range(a.ndim - len(s), a.ndim))
        axes = tuple(axes)
        s = tuple(s) if s is not None else (None,) * len(axes)
        out = FFT.rfft(a, s[-1], axes[-1])
        tot = a.shape[axes[-1]] if s[-1] is None else int(s[-1])
        for ax, n in zip(axes[:-1], s[:-1]):
            out = dft_axis(out, ax, False, n)
            tot *= out.shape[ax]
        sc = _norm_scale(norm, tot, False)
        return out if sc is None else (out * sc).view(SA)

    @_fft_kw
    def irfftn(a, s=None, axes=None, norm=None):
        a = obj(a)
        if axes is None:
            axes = tuple(range(a.ndim)) if s is None else tuple(range(a.ndim - len(s), a.ndim))
        axes = tuple(axes)
        s = tuple(s) if s is not None else (None,) * len(axes)
        out = a
        tot = 1
        for ax, n in zip(axes[:-1], s[:-1]):
            out = dft_axis(out, ax, True, n)
            tot *= out.shape[ax]
        res = FFT.irfft(out, s[-1], axes[-1])
        tot *= res.shape[axes[-1]]
        sc = _norm_scale(norm, tot, True)
        return res if sc is None else (res * sc).view(SA)

    @staticmethod
    def next_fast_len(target, real=False):
        import scipy.fft
        return scipy.fft.next_fast_len(int(target), real=real)

    @staticmethod
    def rfftfreq(n, d=1.0):
        n = int(n)
        return obj(numpy.array([Sym(v) / (Sym.lift(d) * n) for v in range(n // 2 + 1)], dtype=object))

    @_fft_kw
    def rfft(a, n=None, axis=-1, norm=None):
        full = dft_axis(a, axis, False, n)
        N = full.shape[axis]
        sl = [slice(None)] * full.ndim
        sl[axis] = slice(0, N // 2 + 1)
        out = full[tuple(sl)]
        sc = _norm_scale(norm, N, False)
        return out if sc is None else (out * sc).view(SA)

    @_fft_kw
    def irfft(a, n=None, axis=-1, norm=None):
        """C2R: Hermitian extension of the half spectrum, real part (imag of DC/Nyquist dropped)"""
        _norm_arg = norm
        a = numpy.moveaxis(obj(a), axis, -1)
        m = a.shape[-1]
        N = 2 * (m - 1) if n is None else int(n)
        if N < 1:
            raise ValueError("Invalid number of data points (%d) specified." % N)
        need = N // 2 + 1
        full = numpy.empty(a.shape[:-1] + (N,), dtype=object)
        full.fill(Sym(0))
        for idx in numpy.ndindex(*a.shape[:-1]):
            for k in range(min(need, m)):
                e = Sym.lift(a[idx + (k,)])
                full[idx + (k,)] = e
            for k in range(1, N):
                kk = N - k
                if kk < k and kk < min(need, m):
                    full[idx + (k,)] = Sym.lift(a[idx + (kk,)]).conjugate()
            # DC and Nyquist imaginary parts are discarded by the C2R transform
            full[idx + (0,)] = Sym.lift(full[idx + (0,)]).real
            if N % 2 == 0 and N // 2 < min(need, m):
                full[idx + (N // 2,)] = Sym.lift(a[idx + (N // 2,)]).real
        out = dft_axis(full, -1, True)
        res = numpy.moveaxis(out.real, -1, axis).view(SA)
        sc = _norm_scale(_norm_arg, N, True)
        return res if sc is None else (res * sc).view(SA)

    @_fft_kw
    def rfft2(a, s=None, axes=(-2, -1), norm=None):
        return FFT.rfftn(a, s, axes, norm)

    @_fft_kw
    def irfft2(a, s=None, axes=(-2, -1), norm=None):
        return FFT.irfftn(a, s, axes, norm)

    @staticmethod
    def fftfreq(n, d=1.0):
        n = int(n)
        vals = [k if k < (n + 1) // 2 or (n % 2 == 0 and k < n // 2) else k - n for k in range(n)]
        # numpy: [0, 1, ..., (n-1)//2, -(n//2), ..., -1] / (d*n)
        vals = list(range(0, (n - 1) // 2 + 1)) + list(range(-(n // 2), 0))
        return obj(numpy.array([Sym(v) / (Sym.lift(d) * n) for v in vals], dtype=object))


# ------------------------------------------------------------------ linear algebra
def det_and_adjugate(M):
    """determinant and adjugate of a square SA via memoised Laplace expansion"""
    M = obj(M)
    n = M.shape[0]
    assert M.shape == (n, n)

    memo = {}

    def minor(rows, cols):
        # determinant of submatrix with given row tuple and column tuple (len equal)
        key = (rows, cols)
        if key in memo:
            return memo[key]
        if len(rows) == 0:
            r = Sym(1)
        elif len(rows) == 1:
            r = Sym.lift(M[rows[0], cols[0]])
        else:
            r0 = rows[0]
            acc = Sym(0)
            for jj, c in enumerate(cols):
                e = Sym.lift(M[r0, c])
                if e.isconc() and e.re == 0 and e.im == 0:
                    continue
                sub = minor(rows[1:], cols[:jj] + cols[jj + 1:])
                term = e * sub
                acc = acc + term if jj % 2 == 0 else acc - term
            r = acc
        memo[key] = r
        return r
    allr = tuple(range(n))
    det = minor(allr, allr)
    adj = numpy.empty((n, n), dtype=object)
    for i in range(n):
        for j in range(n):
            rows = tuple(r for r in allr if r != j)
            cols = tuple(c for c in allr if c != i)
            cof = minor(rows, cols)
            adj[i, j] = cof if (i + j) % 2 == 0 else -cof
    return det, adj.view(SA)


INV_LOG = []   # (matrix, det, dinv, inverse) for every stubbed inversion in this process


LAZY_INV = [False]    # when set: inverses are opaque placeholder matrices (claims independent of the inverse only)


def sym_inv(M):
    M = obj(M)
    if M.shape == (0, 0):
        return M.copy()
    if LAZY_INV[0]:
        k = len(INV_LOG)
        inv = numpy.empty(M.shape, dtype=object)
        for i in numpy.ndindex(*M.shape):
            inv[i] = Sym(z3.Real("inv!%d[%d,%d]" % (k, i[0], i[1])))
        inv = inv.view(SA)
        INV_LOG.append((M, Sym(1), Sym(1), inv))
        St.notes.add("opaque inverse (placeholders without axioms) for claims that do not depend on the inverse")
        return inv
    det, adj = det_and_adjugate(M)
    if det.isconc():
        if det.re == 0:
            raise numpy.linalg.LinAlgError("Singular matrix")
        dinv = Sym(1) / det
    else:
        k = len(INV_LOG)
        dv = z3.Real("dinv!%d" % k)
        core.define(dv, [dv * z(det.re) == 1], [z(det.re)])
        St.sem[dv.decl().name()] = ("recip", z(det.re))
        dinv = Sym(dv)
    inv = numpy.empty(M.shape, dtype=object)
    for i in numpy.ndindex(*M.shape):
        inv[i] = adj[i] * dinv
    inv = inv.view(SA)
    INV_LOG.append((M, det, dinv, inv))
    St.notes.add("matrix inverse = adjugate * dinv with dinv*det == 1 (nonsingular case; singular outside)")
    return inv


SVD_LOG = []


def sym_svd(M, full_matrices=True, compute_uv=True, hermitian=False):
    """stub for the SVD of a symmetric PSD matrix: M = U diag(w) U^T, w = sigma^2 >= 0."""
    M = obj(M)
    n = M.shape[0]
    # content-named: the decomposition is a function of the matrix (same matrix -> same factors, whatever the history)
    import hashlib
    k = hashlib.md5("|".join(z(Sym.lift(e).re).sexpr() + "," + z(Sym.lift(e).im).sexpr() for e in M.flat).encode()).hexdigest()[:10]
    k = "%d_%s" % (n, k)
    U = numpy.empty((n, n), dtype=object)
    for i in range(n):
        for j in range(n):
            U[i, j] = Sym(z3.Real("svdU!%s[%d,%d]" % (k, i, j)))
    sig = [z3.Real("svds!%s[%d]" % (k, i)) for i in range(n)]
    W = numpy.empty(n, dtype=object)
    for i in range(n):
        w = Sym(sig[i] * sig[i])
        w.root = sig[i]
        W[i] = w
    axioms = [s >= 0 for s in sig]
    for i in range(n):
        for j in range(n):
            acc = Sym(0)
            for l in range(n):
                acc = acc + U[i, l] * Sym(sig[l] * sig[l]) * U[j, l]
            axioms.append(z(acc.re) == z(Sym.lift(M[i, j]).re))
    U = U.view(SA)
    SVD_LOG.append(dict(M=M, U=U, sigma=sig, axioms=axioms))
    St.notes.add("numpy.linalg.svd stubbed by the spectral factorisation contract of a symmetric PSD matrix")
    return U, W.view(SA), U.T


EIGH_LOG = []


def sym_eigh(M, UPLO="L"):
    """LAPACK eigh by (weak) contract: eigenvalues and eigenvectors are arbitrary reals (fresh symbols).
    Sound for claims that must hold whatever the decomposition returns (e.g. argument purity)."""
    M = obj(M)
    n = M.shape[0]
    k = len(EIGH_LOG)
    w = numpy.empty(n, dtype=object)
    v = numpy.empty((n, n), dtype=object)
    for i in range(n):
        w[i] = Sym(z3.Real("eigw!%d[%d]" % (k, i)))
        for j in range(n):
            v[i, j] = Sym(z3.Real("eigv!%d[%d,%d]" % (k, i, j)))
    EIGH_LOG.append((M, w, v))
    St.notes.add("numpy.linalg.eigh: outputs arbitrary (fresh symbols); only claims independent of the decomposition are decided")
    return w.view(SA), v.view(SA)


CHOL_LOG = []


class LinAlg:
    """stands for both numpy.linalg and scipy.linalg"""
    LinAlgError = numpy.linalg.LinAlgError
    eigh = staticmethod(sym_eigh)
    inv = staticmethod(sym_inv)
    svd = staticmethod(sym_svd)

    @staticmethod
    def pinv(a, rcond=None, hermitian=False, rtol=None):
        rc = rcond if rcond is not None else rtol
        if rc is not None:
            rc = Sym.lift(rc)
            if not (rc.isconc() and rc.re == 0):
                raise NotImplementedError("pinv with rcond > 0 (truncated SVD is LAPACK): outside the encoding")
        St.notes.add("pinv(rcond=0) of a nonsingular matrix = inverse")
        return sym_inv(a)

    @staticmethod
    def pinvh(a, atol=None, rtol=None, lower=True, return_rank=False, check_finite=True):
        for t in (atol, rtol):
            if t is not None:
                t = Sym.lift(t)
                if not (t.isconc() and t.re == 0):
                    raise NotImplementedError("pinvh with a non-zero tolerance (truncated eigendecomposition is LAPACK): outside the encoding")
        St.notes.add("pinvh(tolerance 0) of a nonsingular symmetric matrix = inverse")
        return sym_inv(a)

    @staticmethod
    def det(a):
        a = obj(a)
        if a.ndim != 2:
            raise NotImplementedError("det of a stack")
        return det_and_adjugate(a)[0]

    @staticmethod
    def solve(a, b, *args, **kw):
        St.notes.add("linalg.solve(a, b) of a nonsingular matrix = inverse(a) . b")
        return sym_inv(a).dot(obj(b)).view(SA)

    @staticmethod
    def norm(x, ord=None, axis=None, keepdims=False):
        if ord not in (None, 2, "fro") or (ord == 2 and axis is None and obj(x).ndim > 1):
            raise NotImplementedError("linalg.norm with ord=%r" % (ord,))
        x = obj(x)
        sq = numpy.empty(x.shape, dtype=object)
        for i in numpy.ndindex(*x.shape):
            sq[i] = Sym.lift(x[i]).abs2()
        tot = sq.sum(axis=axis, keepdims=keepdims) if x.ndim else sq[()]
        return _map(core.sym_sqrt, tot)

    @staticmethod
    def cholesky(a, lower=None, overwrite_a=False, check_finite=True, upper=False):
        """contract: L lower triangular with a positive diagonal and L L^T = a (numpy: lower; scipy default: upper)"""
        a = obj(a)
        n = a.shape[0]
        k = len(CHOL_LOG)
        L = numpy.empty((n, n), dtype=object)
        axioms = []
        for i in range(n):
            for j in range(n):
                L[i, j] = Sym(z3.Real("chol!%d[%d,%d]" % (k, i, j))) if j <= i else Sym(0)
            axioms.append(L[i, i].re > 0)
        for i in range(n):
            for j in range(i + 1):
                tot = Sym(0)
                for l in range(j + 1):
                    tot = tot + L[i, l] * L[j, l]
                axioms.append(z(tot.re) == z(Sym.lift(a[i, j]).re))
        for i in range(n):
            for j in range(i + 1):
                core.define(L[i, j].re, axioms)
        CHOL_LOG.append((a, L))
        St.notes.add("linalg.cholesky by contract: fresh lower-triangular L, positive diagonal, L L^T = a (a real symmetric positive definite)")
        want_upper = upper if lower is None else (not lower)
        return (L.T if want_upper else L).view(SA)

    @staticmethod
    def cho_factor(a, lower=False, overwrite_a=False, check_finite=True):
        return ("cho", obj(a)), lower

    @staticmethod
    def cho_solve(c_and_lower, b, overwrite_b=False, check_finite=True):
        (tag, a), lower = c_and_lower
        inv = sym_inv(a)
        return inv.dot(obj(b)).view(SA)


# ------------------------------------------------------------------ special functions
GAMMA_BOUNDS = {}


def _gamma_const(x):
    """Gamma at a concrete rational argument: a named real with a certified-enclosure axiom."""
    x = core.snap_exponent(x.re) if isinstance(x, Sym) else core.snap_exponent(x)
    if x.denominator == 1 and x > 0:
        return Sym(math.factorial(int(x) - 1))
    name = "Gamma!%d_%d" % (x.numerator, x.denominator)
    v = z3.Real(name)
    if name not in St.defs:
        f = math.gamma(float(x))          # libm value; enclosure +-1e-12 relative (stated trust)
        lo, hi = Fr(f) * (1 - Fr(1, 10 ** 12)), Fr(f) * (1 + Fr(1, 10 ** 12))
        core.define(v, [v > z(lo), v < z(hi)])
        St.sem[name] = ("const", f)
        GAMMA_BOUNDS[name] = (float(lo), float(hi))
        St.notes.add("Gamma constants: named reals enclosed within 1e-12 relative of libm's value")
    return Sym(v)


def sym_gamma(x):
    if isinstance(x, numpy.ndarray):
        return _map(_gamma_const, x)
    x = Sym.lift(x)
    if not x.isconc():
        return Sym(core.uf("Gamma", 1)(canon(x.re)))
    return _gamma_const(x)


def sym_kv(nu, x):
    nu = core.snap_exponent(Sym.lift(nu).re)
    f = core.uf("kv_%d_%d" % (nu.numerator, nu.denominator), 1)

    def one(e):
        return Sym(f(canon(e.re) if St.mode == "REAL" else z(e.re)))
    return _map(one, x)


class Special:
    gamma = staticmethod(sym_gamma)
    kv = staticmethod(sym_kv)


class SciPy:
    special = Special
    linalg = LinAlg

    def __getattr__(self, k):
        return getattr(scipy, k)


# ------------------------------------------------------------------ random streams
_DRAW = z3.Function("draw", z3.RealSort(), z3.IntSort(), z3.RealSort())


class Stream:
    """numpy Generator / global RandomState model: draw(stream_id, index)."""
    n_fresh = 0

    def __init__(self, ident):
        self.ident = ident
        self.index = 0
        self.log = []

    @classmethod
    def fresh(cls, why="unseeded"):
        cls.n_fresh += 1
        return cls(z3.Real("stream!%s!%d" % (why, cls.n_fresh)))

    def _draws(self, size):
        if size is None:
            shape = ()
        elif isinstance(size, (int, numpy.integer)):
            shape = (int(size),)
        else:
            shape = tuple(int(s) for s in size)
        out = numpy.empty(shape, dtype=object)
        for i in numpy.ndindex(*shape):
            out[i] = Sym(_DRAW(self.ident, self.index))
            self.index += 1
        self.log.append(("normal", shape))
        return out.view(SA) if shape else out[()]

    def normal(self, loc=0.0, scale=1.0, size=None):
        d = self._draws(size)
        loc, scale = Sym.lift(loc), Sym.lift(scale)
        if not (scale.isconc() and scale.re == 1):
            d = d * scale
        if not (loc.isconc() and loc.re == 0):
            d = d + loc
        return d

    def standard_normal(self, size=None):
        return self._draws(size)

    def random(self, size=None):
        return self._draws(size)


class _SeedSeq:
    """numpy.random.SeedSequence / BitGenerator stand-ins: they only carry the entropy term that selects the stream"""

    def __init__(self, entropy=None, **kw):
        if isinstance(entropy, _SeedSeq):
            entropy = entropy.entropy
        self.entropy = entropy
        self.fresh = Stream.fresh("seedseq") if entropy is None else None

    def stream(self):
        if self.entropy is None:
            return self.fresh
        e = self.entropy
        if isinstance(e, (list, tuple, numpy.ndarray)):
            # a sequence of integers: the stream is a function of all of them (hash-like uninterpreted combination)
            f = z3.Function("seedseq%d" % len(e), *([z3.RealSort()] * (len(e) + 1)))
            return Stream(f(*[z(Sym.lift(x).re) for x in e]))
        return Stream(z(Sym.lift(e).re))


class _BitGen(_SeedSeq):
    pass


class _GeneratorMeta(type):
    def __instancecheck__(cls, inst):
        return isinstance(inst, Stream)

    def __call__(cls, bit_generator=None):
        if isinstance(bit_generator, Stream):
            return bit_generator
        if isinstance(bit_generator, _SeedSeq):
            return bit_generator.stream()
        return _SeedSeq(bit_generator).stream()


class _GeneratorType(metaclass=_GeneratorMeta):
    """numpy.random.Generator: isinstance() recognises the stream model; Generator(bit_generator) selects the stream
    of the bit generator's seed (default_rng(seed) == Generator(PCG64(seed)))"""


class _BitGenMeta(type):
    def __instancecheck__(cls, inst):
        return isinstance(inst, _BitGen)


class _BitGeneratorType(metaclass=_BitGenMeta):
    pass


class Random:
    """stands for numpy.random"""
    Generator = _GeneratorType
    BitGenerator = _BitGeneratorType
    SeedSequence = _SeedSeq
    PCG64 = _BitGen
    PCG64DXSM = _BitGen
    Philox = _BitGen
    SFC64 = _BitGen
    MT19937 = _BitGen

    def __init__(self):
        self.glob = Stream(z3.Real("stream!global!init"))
        self.reseeds = 0
        self.choice_hook = None

    def default_rng(self, seed=None):
        if isinstance(seed, Stream):
            return seed
        if isinstance(seed, _SeedSeq):
            return seed.stream()
        if isinstance(seed, (list, tuple)) or isinstance(seed, numpy.ndarray) and seed.ndim:
            return _SeedSeq(seed).stream()
        if seed is None:
            return Stream.fresh()
        s = Sym.lift(seed)
        return Stream(z(s.re))

    def seed(self, s=None):
        self.reseeds += 1
        if s is None:
            self.glob = Stream.fresh("globalreseed")
        else:
            self.glob = Stream(z3.Real("stream!globalseed") + z(Sym.lift(s).re))

    def normal(self, loc=0.0, scale=1.0, size=None):
        return self.glob.normal(loc, scale, size)

    def random(self, size=None):
        return self.glob.random(size)

    def randint(self, low, high=None, size=None, dtype=int):
        """an integer determined by the position in the global stream (one draw per element)"""
        d = self.glob._draws(size)
        if isinstance(d, numpy.ndarray):
            for i in numpy.ndindex(*d.shape):
                d[i].isint = True
        else:
            d.isint = True
        return d
    random_integers = randint

    def choice(self, a, size=None, replace=True, p=None):
        self.glob.index += 1
        self.glob.log.append(("choice", size))
        if self.choice_hook is not None:
            return self.choice_hook(a, size, replace)
        raise NotImplementedError("numpy.random.choice without a model")

    def __getattr__(self, k):
        raise AttributeError("numpy.random.%s is not modelled" % k)


# ------------------------------------------------------------------ multiprocessing
class _AsyncHandle:
    def __init__(self, pool, fn, args, kwds, callback):
        self.pool, self.fn, self.args, self.kwds, self.callback = pool, fn, args, kwds, callback
        self.done = False
        self.value = None

    def _run(self):
        if not self.done:
            self.value = self.fn(*self.args, **self.kwds)
            self.done = True
            if self.callback is not None:
                self.callback(self.value)

    def get(self, timeout=None):
        if not self.done:
            self.pool._run_pending()
        return self.value

    def wait(self, timeout=None):
        self.get()

    def ready(self):
        return self.done

    def successful(self):
        return True


class PoolStub:
    """in-process Pool: tasks executed in a (forked) permutation, results per the method contract"""
    executed = []

    def __init__(self, processes=None, *a, **k):
        self.processes = processes

    forced_orders = None      # list of orders to use (replay of a witness schedule), consumed call by call

    def _order(self, n):
        if PoolStub.forced_orders:
            o = PoolStub.forced_orders.pop(0)
            if sorted(o) == list(range(n)):
                return list(o)
        ex = St.explorer
        order = list(range(n))
        if ex is None or not getattr(St, "fork_schedules", False) or n <= 1:
            return order
        if n <= 4:
            # every permutation (Lehmer code through free decisions)
            out = []
            rest = list(range(n))
            while rest:
                i = ex.choose_free(len(rest))
                out.append(rest.pop(i))
            return out
        # larger task sets: a fixed family of schedules (in order, reversed, every rotation, every adjacent swap)
        fam = [list(range(n)), list(range(n - 1, -1, -1))]
        for r in range(1, n):
            fam.append(list(range(r, n)) + list(range(r)))
        for a in range(n - 1):
            o = list(range(n))
            o[a], o[a + 1] = o[a + 1], o[a]
            fam.append(o)
        return fam[ex.choose_free(len(fam))]

    def map(self, fn, iterable, chunksize=None):
        items = list(iterable)
        if chunksize is not None and int(chunksize) <= 0 and items:
            # multiprocessing.pool: _get_tasks yields nothing for a chunk size of 0 and MapResult completes at once
            PoolStub.executed.append(("map", []))
            return [None] * len(items)
        order = self._order(len(items))
        res = [None] * len(items)
        for i in order:
            res[i] = fn(items[i])
        PoolStub.executed.append(("map", order))
        return res

    def imap(self, fn, iterable, chunksize=1):
        return iter(self.map(fn, iterable))

    def imap_unordered(self, fn, iterable, chunksize=1):
        """results in completion order; tasks are handed out in chunks of `chunksize`, chunks complete in any
        order (forked), a chunk's results arrive together and in order"""
        items = list(iterable)
        c = max(1, int(chunksize or 1))
        chunks = [list(range(i, min(i + c, len(items)))) for i in range(0, len(items), c)]
        corder = self._order(len(chunks))
        order = [i for ci in corder for i in chunks[ci]]
        PoolStub.executed.append(("imap_unordered", order))
        return iter([fn(items[i]) for i in order])

    def starmap(self, fn, iterable, chunksize=None):
        return self.map(lambda a: fn(*a), iterable)

    def apply_async(self, fn, args=(), kwds=None, callback=None, error_callback=None):
        """tasks submitted one by one: each runs when its result is first awaited or when the pool is closed/joined; the
        execution ORDER of the pending tasks is forked like for map (documented contract: get() returns fn(*args))"""
        h = _AsyncHandle(self, fn, tuple(args), dict(kwds or {}), callback)
        self.__dict__.setdefault("_pending", []).append(h)
        return h

    def _run_pending(self):
        pend = [h for h in self.__dict__.get("_pending", []) if not h.done]
        if not pend:
            return
        order = self._order(len(pend))
        for i in order:
            pend[i]._run()
        PoolStub.executed.append(("apply_async", order))

    def close(self):
        pass

    def join(self):
        self._run_pending()

    def terminate(self):
        pass

    def __enter__(self):
        return self

    def __exit__(self, *a):
        return False


class MP:
    Pool = PoolStub

    @staticmethod
    def cpu_count():
        return 4

    def __getattr__(self, k):
        import multiprocessing
        return getattr(multiprocessing, k)


# ------------------------------------------------------------------ the numpy proxy
class MathProxy:
    """the math module for code that may hand it symbolic scalars: concrete arguments go to math itself"""

    pi = math.pi
    e = math.e
    inf = math.inf
    nan = math.nan
    tau = math.tau

    def __getattr__(self, k):
        f = getattr(math, k)
        if not callable(f):
            return f

        def wrapped(*a):
            if any(isinstance(x, Sym) and not (x.isreal() and conc(x.re)) for x in a):
                x = a[0]
                if k in ("sqrt", "exp", "cos", "sin", "tan", "floor", "log10", "log", "log2", "cbrt", "radians", "degrees"):
                    if k == "log" and len(a) == 2:
                        return core.sym_log(a[0]) / core.sym_log(a[1])
                    return getattr(x, k)()
                if k == "ceil":
                    return -((-x).floor())
                if k == "isqrt":
                    return core.sym_int(core.sym_sqrt(x))
                if k == "fabs":
                    return abs(x)
                if k == "hypot" and len(a) == 2:
                    return Sym.lift(a[0]).hypot(a[1])
                if k == "pow":
                    return Sym.lift(a[0]) ** a[1]
                if k == "gamma":
                    return sym_gamma(x)
                if k == "isnan" or k == "isinf":
                    return False
                if k == "isfinite":
                    return True
                raise NotImplementedError("math.%s of a symbolic value" % k)
            a = tuple((float(x.re) if isinstance(x, Sym) and k not in ("factorial", "comb", "gcd", "isqrt") else
                       (int(x.re) if isinstance(x, Sym) else x)) for x in a)
            r = f(*a)
            return r
        wrapped.__name__ = k
        return wrapped


class _BuiltinMeta(type):
    """the rebound float / int stay usable in isinstance() and issubclass() and as conversion calls"""

    def __call__(cls, *a, **k):
        return cls._convert(*a, **k)

    def __instancecheck__(cls, inst):
        if isinstance(inst, Sym):
            if getattr(inst, "isint", False):
                return cls._real is _real_int
            return cls._real is _real_float and inst.isreal()
        return isinstance(inst, cls._real)

    def __subclasscheck__(cls, sub):
        return issubclass(sub, cls._real)

    def __getattr__(cls, k):
        return getattr(cls._real, k)

    def __repr__(cls):
        return repr(cls._real)


def _sym_float(x=0.0):
    if isinstance(x, Sym):
        if not x.isreal():
            raise TypeError("float() argument must be real")
        return x
    if isinstance(x, numpy.ndarray) and core.raw_dtype(x) == object:
        if x.size == 1:
            return Sym.lift(x.reshape(-1)[0])
        raise TypeError("only length-1 arrays can be converted to Python scalars")
    return _real_float(x)


def _sym_int_builtin(x=0, *a):
    if isinstance(x, Sym):
        if getattr(x, "isint", False):
            return x
        return core.sym_int(x)
    if isinstance(x, numpy.ndarray) and core.raw_dtype(x) == object and x.size == 1:
        return core.sym_int(x.reshape(-1)[0])
    return _real_int(x, *a)


class sym_float(metaclass=_BuiltinMeta):
    _real = _real_float
    _convert = staticmethod(_sym_float)
    _np_dtype = "float64"


class sym_int_builtin(metaclass=_BuiltinMeta):
    _real = _real_int
    _convert = staticmethod(_sym_int_builtin)
    _np_dtype = "int64"


def sym_round(x, nd=None):
    if isinstance(x, Sym):
        r = x.rint()
        return core.sym_int(r) if nd is None else r
    return _real_round(x) if nd is None else _real_round(x, nd)


class _F64(numpy.float64):
    """numpy.float64 as seen by the code under test: a dtype-compatible type whose call keeps symbolic values"""
    def __new__(cls, x=0.0):
        if isinstance(x, numpy.ndarray):
            return obj(x).copy() if core.raw_dtype(x) == object else numpy.float64(x)
        if isinstance(x, Sym):
            return x
        return Sym(numpy.float64(x))


class _F32(numpy.float32):
    def __new__(cls, x=0.0):
        if isinstance(x, numpy.ndarray):
            if core.raw_dtype(x) != object:
                return numpy.float32(x)
            if getattr(x, "_is_f32", False):
                return x            # numpy.float32(float32 array) is the same object
            return obj(x).astype("float32")
        if isinstance(x, Sym):
            return obj(numpy.array(x, dtype=object)).astype("float32")[()]
        return Sym(numpy.float32(x))


def _with_out(fn):
    """element-wise proxy methods: write the result into out= when one is given (NumPy ufunc semantics)"""
    import functools

    @functools.wraps(fn)
    def wrapper(self, *a, out=None, where=True, **kw):
        if where is not True:
            raise NotImplementedError("where= on a proxied element-wise function")
        kw.pop("dtype", None)
        kw.pop("casting", None)
        r = fn(self, *a)
        if out is None:
            return r
        tgt = out[0] if isinstance(out, tuple) else out
        tgt[...] = r
        return tgt
    return wrapper


class NP:
    """module-like proxy for numpy"""

    def __init__(self):
        self.fft = FFT()
        self.linalg = LinAlg()
        self.random = Random()
        self.pi = numpy.pi
        self.newaxis = None
        self.float64 = _F64
        self.float32 = _F32

    def __getattr__(self, k):
        f = getattr(numpy, k)
        if callable(f) and not isinstance(f, type) and not isinstance(f, numpy.ufunc):
            def wrapped(*a, **kw):
                return _as_sa(f(*a, **kw))
            wrapped.__name__ = k
            return wrapped
        return f

    # ---- constructors
    def _filled(self, shape, val, dtype=None):
        dt = core._dt(dtype) if dtype is not None else None
        if dt is not None and dt.kind in "iub" and dtype not in ("complex",):
            if isinstance(val, Sym) or val is None:
                pass
            else:
                return numpy.full(_shape(shape), val, dtype=dt)
        a = numpy.empty(_shape(shape), dtype=object)
        if val is None:
            for i in numpy.ndindex(*a.shape):
                St.fresh += 1
                a[i] = Sym(z3.Real("uninit!%d" % St.fresh))
        else:
            for i in numpy.ndindex(*a.shape):
                a[i] = Sym(val)
        return a.view(SA)

    def zeros(self, shape, dtype=None, order="C"):
        return self._filled(shape, 0, dtype)

    def ones(self, shape, dtype=None, order="C"):
        return self._filled(shape, 1, dtype)

    def empty(self, shape, dtype=None, order="C"):
        """uninitialised memory = arbitrary (fresh unconstrained symbols)"""
        dt = core._dt(dtype) if dtype is not None else None
        if dt is not None and dt.kind in "iub":
            return numpy.empty(_shape(shape), dtype=dt)
        return self._filled(shape, None, dtype)

    def _like(self, a, val, dtype, shape):
        """*_like: the new array has a's element type.  An integer / boolean prototype (a native array of such a dtype
        or a symbolic array typed so) gives a typed symbolic buffer: what is stored into it later is C-cast."""
        shp = numpy.shape(a) if shape is None else _shape(shape)
        idt = None
        if dtype is None:
            if isinstance(a, numpy.ndarray) and core.raw_dtype(a) != object and a.dtype.kind in "iub":
                idt = a.dtype
            elif getattr(a, "_idt", None) is not None:
                idt = a._idt
            elif isinstance(a, numpy.ndarray) and core.raw_dtype(a) != object:
                dtype = a.dtype
        if idt is not None:
            out = numpy.empty(shp, dtype=object)
            for i in numpy.ndindex(*out.shape):
                out[i] = Sym(val)
            return core.typed(out, idt)
        return self._filled(shp, val, dtype)

    def zeros_like(self, a, dtype=None, order="K", subok=True, shape=None):
        return self._like(a, 0, dtype, shape)

    def ones_like(self, a, dtype=None, order="K", subok=True, shape=None):
        return self._like(a, 1, dtype, shape)

    def empty_like(self, a, dtype=None, order="K", subok=True, shape=None):
        return self._like(a, 0, dtype, shape)

    def full_like(self, a, fill_value, dtype=None, order="K", subok=True, shape=None):
        out = self._like(a, 0, dtype, shape)
        if isinstance(out, numpy.ndarray) and core.raw_dtype(out) == object:
            out[...] = fill_value
            return out
        return numpy.full_like(out, fill_value)

    def identity(self, n, dtype=None):
        a = self._filled((n, n), 0)
        for i in range(n):
            a[i, i] = Sym(1)
        return a

    def eye(self, n, dtype=None):
        return self.identity(n)

    def arange(self, *args, dtype=None):
        if dtype is not None and core._dt(dtype).kind in "iu":
            return numpy.arange(*[_cint(a) for a in args], dtype=dtype)
        a = [Sym.lift(x) for x in args]
        if len(a) == 1:
            start, stop, step = Sym(0), a[0], Sym(1)
        elif len(a) == 2:
            start, stop, step = a[0], a[1], Sym(1)
        else:
            start, stop, step = a
        if all(isinstance(x, (int, numpy.integer)) for x in args):
            return numpy.arange(*args)
        if start.isconc() and stop.isconc() and step.isconc():
            n = max(0, math.ceil((stop.re - start.re) / step.re))
        else:
            # length = ceil((stop-start)/step): fork on its value
            q = (stop - start) / step
            n = core.sym_int(-((-q).floor()))
            n = max(0, n)
        out = numpy.empty(n, dtype=object)
        for i in range(n):
            out[i] = start + step * i
        return out.view(SA)

    def linspace(self, start, stop, num=50, endpoint=True, dtype=None):
        num = int(num)
        start, stop = Sym.lift(start), Sym.lift(stop)
        out = numpy.empty(num, dtype=object)
        div = (num - 1) if endpoint else num
        for i in range(num):
            if div == 0:
                out[i] = start
            elif endpoint and i == num - 1:
                out[i] = stop
            else:
                out[i] = start + (stop - start) * Fr(i, div)
        out = out.view(SA)
        if dtype is not None and core._dt(dtype).kind in "iu":
            return out.astype(dtype)
        return out

    def array(self, x, dtype=None, copy=True, **kw):
        if dtype is not None:
            dt = core._dt(dtype)
            if dt is not None and dt.kind in "iub" and not _has_sym(x):
                return numpy.array(x, dtype=dtype)
            if dt is not None and dt.kind in "iub":
                return obj(numpy.array(x, dtype=object)).astype(dt)
        if _has_sym(x):
            a = numpy.array(x, dtype=object)
            return obj(a)
        a = numpy.array(x)
        return const_arr(a)

    def asarray(self, x, dtype=None):
        # symbolic arrays stand for float64 / complex128 arrays: asarray with a matching dtype is the same object
        if isinstance(x, numpy.ndarray):
            if dtype is None:
                return x
            dt = core._dt(dtype)
            if core.raw_dtype(x) == object and dt is not None and dt.kind in "fc" and dt.itemsize >= 8:
                return x
        return self.array(x, dtype)

    def asanyarray(self, x, dtype=None):
        return self.asarray(x, dtype)

    def ascontiguousarray(self, x, dtype=None):
        return self.asarray(x, dtype)

    # numpy.float32 / numpy.float64 stay usable both as converters and as dtype arguments (promote_types, astype, ...)
    float32 = None
    float64 = None

    # ---- element-wise functions
    @_with_out
    def sqrt(self, x):
        return _map(core.sym_sqrt, x)

    @_with_out
    def exp(self, x):
        return _map(core.sym_exp, x)

    @_with_out
    def log10(self, x):
        return _map(core.sym_log10, x)

    @_with_out
    def log(self, x):
        return _map(core.sym_log, x)

    def float_power(self, a, b):
        return _as_sa(numpy.power(obj(a), b))

    def hypot(self, a, b):
        a, b = obj(a), obj(b)
        return _map(core.sym_sqrt, a * a + b * b)

    @_with_out
    def cos(self, x):
        return _map(lambda e: e.cos(), x)

    @_with_out
    def sin(self, x):
        return _map(lambda e: e.sin(), x)

    def arctan2(self, y, x):
        """only for concrete arguments (evaluated in floating point, as the code itself does)"""
        ya, xa = numpy.broadcast_arrays(numpy.asarray(y, dtype=object), numpy.asarray(x, dtype=object))
        out = numpy.empty(ya.shape, dtype=object)
        for i in numpy.ndindex(*ya.shape):
            a, b = Sym.lift(ya[i]), Sym.lift(xa[i])
            if not (a.isconc() and b.isconc()):
                raise NotImplementedError("arctan2 of symbolic arguments")
            St.float_evals += 1
            out[i] = Sym(math.atan2(float(a.re), float(b.re)))
        return out.view(SA) if out.ndim else out[()]

    @_with_out
    def abs(self, x):
        return _map(abs, x)
    absolute = abs

    @_with_out
    def conjugate(self, x):
        return _map(lambda e: e.conjugate(), x)
    conj = conjugate

    @_with_out
    def real(self, x):
        return _map(lambda e: e.real, x)

    @_with_out
    def imag(self, x):
        return _map(lambda e: e.imag, x)

    def round(self, x, decimals=0):
        if isinstance(x, numpy.ndarray) and core.raw_dtype(x) != object:
            return numpy.round(x, decimals)
        if not isinstance(x, (numpy.ndarray, Sym)):
            return numpy.round(x, decimals)
        return _map(lambda e: e.rint(), x)
    around = round
    rint = round

    @_with_out
    def floor(self, x):
        return _map(lambda e: e.floor(), x)

    @_with_out
    def ceil(self, x):
        return _map(lambda e: -((-e).floor()), x)

    def where(self, cond, *args):
        if not args:
            if isinstance(cond, numpy.ndarray) and core.raw_dtype(cond) == object:
                # index extraction forks per element
                b = numpy.empty(cond.shape, dtype=bool)
                for i in numpy.ndindex(*cond.shape):
                    b[i] = bool(cond[i])
                return numpy.where(b)
            return numpy.where(cond)
        a, b = args
        if isinstance(cond, numpy.ndarray) and core.raw_dtype(cond) == object:
            a_b, b_b, c_b = numpy.broadcast_arrays(numpy.asarray(a, dtype=object), numpy.asarray(b, dtype=object), cond)
            out = numpy.empty(c_b.shape, dtype=object)
            for i in numpy.ndindex(*c_b.shape):
                out[i] = core.ite(c_b[i], Sym.lift(a_b[i]), Sym.lift(b_b[i])) if isinstance(c_b[i], SymBool) else (
                    Sym.lift(a_b[i]) if c_b[i] else Sym.lift(b_b[i]))
            return out.view(SA)
        r = numpy.where(cond, a, b)
        return obj(r) if core.raw_dtype(r) == object else r

    def max(self, a, axis=None, **kw):
        if isinstance(a, (list, tuple)):
            a = numpy.array(a, dtype=object) if _has_sym(a) else numpy.array(a)
        return numpy.max(a, axis=axis, **kw)

    def min(self, a, axis=None, **kw):
        if isinstance(a, (list, tuple)):
            a = numpy.array(a, dtype=object) if _has_sym(a) else numpy.array(a)
        return numpy.min(a, axis=axis, **kw)
    amax = max
    amin = min

    def maximum(self, a, b):
        if _has_sym(a) or _has_sym(b):
            a2 = a if isinstance(a, numpy.ndarray) else numpy.array(a, dtype=object)
            b2 = b if isinstance(b, numpy.ndarray) else numpy.array(b, dtype=object)
            return obj(numpy.maximum(obj(a2), obj(b2)))
        return numpy.maximum(a, b)

    def interp(self, x, xp, fp):
        """piecewise-linear interpolation, documented definition, symbolic comparisons (fork)"""
        x, xp, fp = obj(numpy.atleast_1d(x)), obj(xp), obj(fp)
        out = numpy.empty(x.shape, dtype=object)
        n = len(xp)
        for i in numpy.ndindex(*x.shape):
            xi = Sym.lift(x[i])
            if bool(xi <= xp[0]):
                out[i] = fp[0]
                continue
            if bool(xi >= xp[n - 1]):
                out[i] = fp[n - 1]
                continue
            for k in range(n - 1):
                if bool(xi < xp[k + 1]):
                    d = xp[k + 1] - xp[k]
                    out[i] = fp[k] + (fp[k + 1] - fp[k]) * ((xi - xp[k]) / d)
                    break
        return out.view(SA)

    def digitize(self, x, bins, right=False):
        x, bins = obj(numpy.atleast_1d(x)), obj(bins)
        assert not right
        out = numpy.empty(x.shape, dtype=int)
        for i in numpy.ndindex(*x.shape):
            k = 0
            # bins assumed increasing: index i such that bins[i-1] <= x < bins[i]
            while k < len(bins) and bool(Sym.lift(x[i]) >= bins[k]):
                k += 1
            out[i] = k
        return out

    def sum(self, a, axis=None, **kw):
        return numpy.sum(a, axis=axis, **kw)

    def isnan(self, x):
        return numpy.zeros(numpy.shape(x), dtype=bool) if numpy.shape(x) else False

    def isinf(self, x):
        return numpy.zeros(numpy.shape(x), dtype=bool) if numpy.shape(x) else False

    def isfinite(self, x):
        return numpy.ones(numpy.shape(x), dtype=bool) if numpy.shape(x) else True

    def finfo(self, dtype=None):
        return numpy.finfo(core._dt(dtype) if dtype is not None else numpy.float64) if not isinstance(dtype, (Sym, numpy.ndarray)) else numpy.finfo(numpy.float64)

    def iinfo(self, dtype):
        return numpy.iinfo(core._dt(dtype))

    def isrealobj(self, x):
        """a symbolic array stands for a real-dtype array iff no element carries an imaginary part (symbolic complex
        arrays have symbolic imaginary parts); native arrays answer for themselves"""
        if isinstance(x, Sym):
            return bool(Sym.lift(x).im_is_zero()) if hasattr(x, "im_is_zero") else _im_zero(x)
        a = numpy.asarray(x)
        if a.dtype != object:
            return bool(numpy.isrealobj(a))
        return all(_im_zero(e) for e in a.flat)

    def iscomplexobj(self, x):
        return not self.isrealobj(x)

    def isclose(self, a, b, rtol=1e-05, atol=1e-08, equal_nan=False):
        """|a - b| <= atol + rtol |b| element-wise (symbolic elements give symbolic truth values)"""
        x, y = numpy.broadcast_arrays(numpy.asarray(a, dtype=object), numpy.asarray(b, dtype=object))
        out = numpy.empty(x.shape, dtype=object)
        for i in numpy.ndindex(*x.shape):
            u, v = Sym.lift(x[i]), Sym.lift(y[i])
            d, lim = abs(u - v), Sym.lift(atol) + Sym.lift(rtol) * abs(v)
            if d.isconc() and lim.isconc():
                out[i] = bool(d.re <= lim.re)
            else:
                out[i] = SymBool(z(d.re) <= z(lim.re))
        return out if out.ndim else out[()]

    def allclose(self, a, b, rtol=1e-05, atol=1e-08, equal_nan=False):
        r = self.isclose(a, b, rtol, atol)
        lits = []
        for e in numpy.asarray(r, dtype=object).flat:
            if isinstance(e, SymBool):
                lits.append(e.e)
            elif not e:
                return False
        if not lits:
            return True
        return bool(SymBool(z3.And(*lits) if len(lits) > 1 else lits[0]))

    def array_equal(self, a1, a2, equal_nan=False):
        """one decision for the whole comparison (not one fork per element)"""
        try:
            x, y = numpy.asarray(a1), numpy.asarray(a2)
        except Exception:
            return False
        if x.shape != y.shape:
            return False
        if core.raw_dtype(x) != object and core.raw_dtype(y) != object:
            return bool(numpy.array_equal(x, y, equal_nan=equal_nan))
        lits = []
        for i in numpy.ndindex(*x.shape):
            u, v = Sym.lift(x[i]), Sym.lift(y[i])
            for p, q in ((u.re, v.re), (u.im, v.im)):
                if conc(p) and conc(q):
                    if p != q:
                        return False
                    continue
                zp, zq = z(p), z(q)
                if zp.get_id() != zq.get_id():
                    lits.append(zp == zq)
        if not lits:
            return True
        return bool(SymBool(z3.And(*lits) if len(lits) > 1 else lits[0]))

    def array_equiv(self, a1, a2):
        try:
            x, y = numpy.broadcast_arrays(numpy.asarray(a1), numpy.asarray(a2))
        except Exception:
            return False
        return self.array_equal(x, y)



def _as_sa(r):
    """object-dtype results of forwarded NumPy functions become SA views"""
    if isinstance(r, numpy.ndarray):
        if core.raw_dtype(r) == object and not isinstance(r, SA):
            return r.view(SA)
        return r
    if isinstance(r, tuple):
        return tuple(_as_sa(x) for x in r)
    if isinstance(r, list):
        return [_as_sa(x) for x in r]
    return r


def _shape(s):
    if isinstance(s, (int, numpy.integer)):
        return (int(s),)
    if isinstance(s, Sym):
        return (core.sym_int(s),)
    return tuple(core.sym_int(x) if isinstance(x, Sym) else int(x) for x in s)


def _cint(a):
    return core.sym_int(a) if isinstance(a, Sym) else a


# ------------------------------------------------------------------ module rebinding
@contextlib.contextmanager
def symbolic(*modules, proxy=None, extra=None):
    """Rebind module globals of the given (already imported, real) aotools modules so that the
    unmodified functions run on symbolic values; restore afterwards."""
    proxy = proxy or NP()
    sp = SciPy()
    sp.linalg = proxy.linalg          # a check that replaces the linear-algebra proxy replaces it for scipy.linalg too
    saved = []
    try:
        for mod in modules:
            g = vars(mod)
            new = {}
            for name, val in list(g.items()):
                if val is numpy:
                    new[name] = proxy
                elif val is numpy.fft:
                    new[name] = proxy.fft
                elif val is numpy.linalg or val is scipy.linalg:
                    new[name] = proxy.linalg
                elif val is scipy:
                    new[name] = sp
                elif val is scipy.special:
                    new[name] = Special
                elif val is scipy.special.kv:
                    new[name] = sym_kv
                elif val is scipy.special.gamma:
                    new[name] = sym_gamma
                elif isinstance(val, types.ModuleType) and val.__name__ == "multiprocessing":
                    new[name] = MP()
                elif hasattr(val, "py_func") and callable(getattr(val, "py_func")):
                    new[name] = val.py_func      # numba dispatcher -> its Python source
                elif val is math:
                    new[name] = MathProxy()
                elif isinstance(val, types.ModuleType) and val.__name__ in ("scipy.fft", "scipy.fftpack", "numpy.fft"):
                    new[name] = proxy.fft
                elif callable(val) and not isinstance(val, type):
                    # functions imported by name (from numpy import sqrt, from numpy.fft import fft2, ...)
                    nm = getattr(val, "__name__", None)
                    if nm and not nm.startswith("_"):
                        if getattr(numpy, nm, None) is val:
                            new[name] = getattr(proxy, nm)
                        elif getattr(numpy.fft, nm, None) is val and hasattr(proxy.fft, nm):
                            new[name] = getattr(proxy.fft, nm)
                        elif (getattr(numpy.linalg, nm, None) is val or getattr(scipy.linalg, nm, None) is val) \
                                and hasattr(proxy.linalg, nm):
                            new[name] = getattr(proxy.linalg, nm)
                        elif getattr(math, nm, None) is val and hasattr(MathProxy, nm):
                            new[name] = getattr(MathProxy(), nm)
            new.setdefault("float", sym_float)
            new.setdefault("int", sym_int_builtin)
            new.setdefault("round", sym_round)
            if extra:
                new.update(extra.get(mod.__name__, {}))
            for name, val in new.items():
                rec = (g, name, val, g.get(name, _MISSING))
                saved.append(rec)
                _ACTIVE.append(rec)
                g[name] = val
        yield proxy
    finally:
        for rec in reversed(saved):
            g, name, val, old = rec
            if old is _MISSING:
                g.pop(name, None)
            else:
                g[name] = old
            try:
                _ACTIVE.remove(rec)
            except ValueError:
                pass


_MISSING = object()
_ACTIVE = []     # stack of (globals dict, name, symbolic value, original value) for active rebindings


@contextlib.contextmanager
def real_code():
    """temporarily restore the original module globals (used while replaying on the real code)"""
    snapshot = list(_ACTIVE)
    for g, name, new, old in reversed(snapshot):
        if old is _MISSING:
            g.pop(name, None)
        else:
            g[name] = old
    ex, St.explorer = St.explorer, None
    try:
        yield
    finally:
        St.explorer = ex
        for g, name, new, old in snapshot:
            g[name] = new
