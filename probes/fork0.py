"""mini path-forking engine on top of sym0.S (real-valued only compare)"""
import z3, numpy
import sym1 as sym0
from sym1 import S, z as R0, tov

class Ctx:
    cur = None
    def __init__(self, pre):
        self.pre = list(pre); self.paths = []; 
    def run(self, fn):
        stack = [[]]   # decision prefixes to explore
        results = []
        self.nsolver = 0
        while stack:
            prefix = stack.pop()
            self.decisions = list(prefix); self.pos = 0; self.pc = list(self.pre); self.pending = []
            Ctx.cur = self
            out = fn()
            Ctx.cur = None
            for alt in self.pending: stack.append(alt)
            results.append((list(self.pc), out))
        return results
    def branch(self, cond):
        # cond: z3 BoolRef
        if self.pos < len(self.decisions):
            d = self.decisions[self.pos]
        else:
            s = z3.Solver(); s.add(self.pc); 
            self.nsolver += 2
            can_t = s.check(cond) == z3.sat
            can_f = s.check(z3.Not(cond)) == z3.sat
            if can_t and can_f:
                d = True
                self.pending.append(self.decisions[:self.pos] + [False])
            elif can_t: d = True
            elif can_f: d = False
            else: raise RuntimeError("infeasible path")
            self.decisions.append(d)
        self.pos += 1
        self.pc.append(cond if d else z3.Not(cond))
        return d

class SB:
    def __init__(self, e): self.e = e
    def __bool__(self): return Ctx.cur.branch(self.e)

def _cmp(op):
    def f(self, o):
        o = S.lift(o)
        import sym1
        if sym1.conc(self.re) and sym1.conc(o.re): return bool(op(self.re, o.re))
        return SB(op(sym1.z(self.re), sym1.z(o.re)))
    return f
S.__le__ = _cmp(lambda a,b: a<=b); S.__lt__ = _cmp(lambda a,b: a<b)
S.__ge__ = _cmp(lambda a,b: a>=b); S.__gt__ = _cmp(lambda a,b: a>b)
S.__eq__ = _cmp(lambda a,b: a==b); S.__ne__ = _cmp(lambda a,b: a!=b)
S.__hash__ = lambda self: id(self)
