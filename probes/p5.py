import z3, time, fractions
R = z3.Real
# C17: cn2_to_r0(r0_to_cn2(r0, lam), lam) == r0, algebraic powers
r0, lam = R('r0'), R('lam')
pi = z3.RealVal(str(fractions.Fraction(3.141592653589793)))
K = z3.RealVal(str(fractions.Fraction(0.423))) * (2*pi/lam)*(2*pi/lam)
w = R('w')  # r0**(-5/3)
ax = [r0>0, lam>0, w>0, w*w*w*r0**5 == 1]
cn2 = w / K
y = R('y')  # (K*cn2)**(-3/5)
ax += [y>0, (y**5)*(K*cn2)**3 == 1]
s = z3.Solver(); s.set("timeout", 60000); s.add(ax); s.add(y != r0)
t=time.time(); print("inverse pair", s.check(), time.time()-t)
# mutant: exponent typo -3/5 -> -5/3 in cn2_to_r0:  y^3 * (K cn2)^5 == 1
s = z3.Solver(); s.set("timeout", 60000); s.add(ax[:4]); s.add(y>0, (y**3)*(K*cn2)**5 == 1); s.add(y != r0)
t=time.time(); r=s.check(); print("mutant", r, time.time()-t); 
if str(r)=='sat': print(s.model())
# scaling: r0 ∝ lam^(6/5): r0(cn2, 2^5 lam) = 2^6 r0(cn2, lam)  (choose factor 32 so 32^(6/5)=64 exact)
cn2v = R('cn2'); 
def r0_of(l, name):
    y = R(name); Kl = z3.RealVal(str(fractions.Fraction(0.423))) * (2*pi/l)*(2*pi/l)
    return y, [y>0, (y**5)*(Kl*cn2v)**3 == 1]
y1, a1 = r0_of(lam, 'y1'); y2, a2 = r0_of(32*lam, 'y2')
s = z3.Solver(); s.set("timeout", 60000); s.add(lam>0, cn2v>0); s.add(a1+a2); s.add(y2 != 64*y1)
t=time.time(); print("scaling", s.check(), time.time()-t)
