"""Probe C01: run the real CovarianceMatrix.make_covariance_matrix symbolically (REAL mode, UF Bessel)."""
import time, z3, numpy, sys, builtins
import sym1
from sym1 import *
from fork0 import *
Fr = sym1.Fr
# ---- extend S: sqrt with canonical keys, rational powers (UF here), UF kv/gamma, bit-or model
SQ = {}; AX = []
def canon(t):
    return z3.simplify(z(t), som=True, sort_sums=True, flat=True)
def s_sqrt(self):
    assert self.isreal()
    if conc(self.re):
        import math
        r = Fr(math.isqrt(self.re.numerator), 1) / Fr(math.isqrt(self.re.denominator),1)
        if r*r == self.re: return S(r)
        c = z3.RealVal(str(self.re))
    else: c = canon(self.re)
    k = c.sexpr()
    if k not in SQ:
        v = z3.Real(f"sq{len(SQ)}"); SQ[k] = (v, c); AX.extend([v >= 0, v*v == c])
    out = S(SQ[k][0]); out.sq_of = self.re
    return out
S.sqrt = s_sqrt
_pow0 = S.__pow__
POWF = {}
def s_pow(self, n):
    if isinstance(n, S): n = n.re
    n = Fr(n)
    if n.denominator == 1 and n >= 0:
        if n == 2 and hasattr(self, "sq_of"): return S(self.sq_of)
        return _pow0(self, n)
    # rational power: uninterpreted per exponent (probe); positive base assumed
    f = POWF.setdefault(n, z3.Function(f"pow_{n.numerator}_{n.denominator}".replace("-","m"), z3.RealSort(), z3.RealSort()))
    if conc(self.re):
        return S(f(z3.RealVal(str(self.re))))
    return S(f(canon(self.re)))
S.__pow__ = s_pow
S.__rpow__ = lambda self, b: (_ for _ in ()).throw(NotImplementedError)
KV = z3.Function("kv56", z3.RealSort(), z3.RealSort())
class Special:
    @staticmethod
    def gamma(x): return S(z3.Real("Gamma56"))
    @staticmethod
    def kv(nu, x):
        f = numpy.frompyfunc(lambda e: S(KV(canon(S.lift(e).re))), 1, 1)
        return f(x)
class Scipy: special = Special
BOR = z3.Function("bitor32", z3.RealSort(), z3.RealSort(), z3.RealSort())
def s_or(self, o):
    o = S.lift(o)
    if conc(self.re) and self.re == 0: return o
    if conc(o.re) and o.re == 0: return self
    a, b = z(self.re), z(o.re)
    if a.eq(b): return self
    return S(BOR(a, b))
S.__or__ = s_or; S.__ror__ = s_or
# ---- array subclass for astype/view
class SA(numpy.ndarray):
    def __array_finalize__(self, obj): pass
    def astype(self, dt, *a, **k): return self
    def view(self, *a, **k):
        if a and a[0] in ("int32", "float32"): return self
        return super().view(*a, **k)
    def sum(self, *a, **k):
        r = numpy.asarray(self).sum(*a, **k); return r
def obj(a): return numpy.asarray(a, dtype=object).view(SA)
class NP:
    pi = numpy.pi
    def __getattr__(self, k): return getattr(numpy, k)
    def zeros(self, shape, dtype=None):
        a = numpy.empty(shape, dtype=object); a.fill(S(0)); return a.view(SA)
    def array(self, x, dtype=None):
        try:
            return numpy.array(x, dtype=dtype)
        except Exception:
            return numpy.array(x, dtype=object)
    def sqrt(self, x): return numpy.sqrt(obj(x)) if isinstance(x, numpy.ndarray) else S.lift(x).sqrt()
import aotools.turbulence.slopecovariance as sc
sc.numpy = NP(); sc.scipy = Scipy
def Rv(name): return S(z3.Real(name))
def build(masks, symbolic_geom=True):
    n = len(masks)
    D = Rv("Dtel"); d = [Rv(f"d{i}") for i in range(n)]
    gsx = [[Rv(f"gx{i}"), Rv(f"gy{i}")] for i in range(n)]
    alt = [Rv(f"H{i}") for i in range(n)]
    wv = [Rv(f"lam{i}") for i in range(n)]
    h = [Rv("h0")]; r0 = [Rv("r0")]; L0 = [Rv("L0")]
    pre = [z(x.re) > 0 for x in d+wv+r0+L0+h+[D]] + [z(a.re) > z(h[0].re) for a in alt]
    cm = sc.CovarianceMatrix(n, masks, D, d, alt, gsx, wv, 1, h, r0, L0)
    return cm, pre, dict(D=D,d=d,gs=gsx,alt=alt,wv=wv,h=h,r0=r0,L0=L0)
masks = [numpy.ones((2,2)), numpy.ones((2,2))] if sys.argv[1]=="sym" else [numpy.array([[1,1],[1,0]])]
cm, pre, P = build(masks)
t0 = time.time()
ctx = Ctx(pre)
res = ctx.run(lambda: cm.make_covariance_matrix())
print("paths", len(res), "exec s", round(time.time()-t0,2), "sqrt vars", len(SQ), flush=True)
pc, M = res[0]
print("shape", M.shape, "sample entry", str(M[0,0])[:300])
# ---- oracle (symbolic), using the code's centre convention (centre_sign=-1) to test solver feasibility
def oracle_entries(masks, P, centre_sign=-1):
    n = len(masks); ent = []
    h = P["h"][0]
    for w in range(n):
        idx = numpy.array(numpy.where(masks[w]==1)).T
        sf = 1 - h/P["alt"][w]
        dd = P["d"][w]*sf
        for ax in (0,1):
            for (i0,i1) in idx:
                p = [ (int(i0)*P["d"][w] - P["D"]/2. + centre_sign*P["d"][w]/2.)*sf + P["gs"][w][0]*(numpy.pi/180/3600)*h,
                      (int(i1)*P["d"][w] - P["D"]/2. + centre_sign*P["d"][w]/2.)*sf + P["gs"][w][1]*(numpy.pi/180/3600)*h ]
                ent.append((w, ax, p, dd))
    return ent
def Dfun(v):
    r = (v[0]*v[0] + v[1]*v[1] + 0).sqrt() if not (conc((v[0]*v[0]+v[1]*v[1]).re)) else None
    return sc.structure_function_vk(r, P["r0"][0], P["L0"][0])
ent = oracle_entries(masks, P)
def oracle(i, j):
    wi, ai, pi, di = ent[i]; wj, aj, pj, dj = ent[j]
    e = lambda ax: [S(1) if ax==0 else S(0), S(1) if ax==1 else S(0)]
    ei, ej = e(ai), e(aj)
    a = [pi[k] + di/2*ei[k] for k in (0,1)]; b = [pi[k] - di/2*ei[k] for k in (0,1)]
    c = [pj[k] + dj/2*ej[k] for k in (0,1)]; d_ = [pj[k] - dj/2*ej[k] for k in (0,1)]
    sub = lambda u, v: [u[0]-v[0], u[1]-v[1]]
    cov = (Dfun(sub(a,d_)) + Dfun(sub(b,c)) - Dfun(sub(a,c)) - Dfun(sub(b,d_))) * 0.5
    return cov * P["wv"][wi] * P["wv"][wj] / (4*numpy.pi**2 * di * dj)
nsq0 = len(SQ)
import itertools
tests = [(8,0),(8,1),(12,4),(12,0),(8,4),(9,6)] if len(masks)==2 else [(1,0),(3,0),(0,3),(4,1)]
for (i,j) in tests:
    t = time.time()
    o = oracle(i,j)
    s = z3.Solver(); s.set("timeout", 120000); s.add(pc); s.add(AX)
    s.add(z(M[i,j].re) != z(o.re))
    r = s.check()
    print((i,j), r, round(time.time()-t,2), "sqrt vars now", len(SQ), flush=True)
