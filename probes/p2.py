import time, z3, numpy, fractions
import sym0
from sym0 import *
import aotools.fouriertransform as ftm
ftm.numpy = NPProxy()
AX = []
def make_twiddle(N, mode):
    # primitive root w = c - i s  (exp(-2pi i/N))
    if N in (1,2,4): return None
    if mode == "alg":
        import math
        c = z3.Real(f"c{N}"); s = z3.Real(f"s{N}")
        w = S(c, -s)
        p = S(1,0)
        pw = [p]
        for k in range(1, N+1):
            p = p * w; pw.append(p)
        # w^N = 1, and isolate root by rational bounds
        AX.extend([pw[N].re == 1, pw[N].im == 0])
        cv, sv = math.cos(2*math.pi/N), math.sin(2*math.pi/N)
        eps = fractions.Fraction(1, 1000)
        AX.extend([c > R(fractions.Fraction(cv)-eps), c < R(fractions.Fraction(cv)+eps), s > R(fractions.Fraction(sv)-eps), s < R(fractions.Fraction(sv)+eps)])
        return pw
tw = {}
def twiddle(N, k):
    k %= N
    if N not in tw: tw[N] = make_twiddle(N, "alg")
    if tw[N] is None: return _old(N, k)
    return tw[N][k]
_old = sym0.twiddle
sym0.twiddle = twiddle
import sys
for N in map(int, sys.argv[1:]):
    x = symarr("x", (N,), cplx=True)
    d = S(z3.Real("delta"))
    t=time.time()
    X = ftm.ft(x, d)
    df = 1/(d*N)
    y = ftm.ift(X, df)
    s = z3.Solver(); s.add(AX)
    s.add(d.re > 0)
    diffs = []
    for idx in numpy.ndindex(N):
        diffs.append(y[idx].re != x[idx].re); diffs.append(y[idx]._im() != x[idx]._im())
    s.add(z3.Or(diffs))
    s.set("timeout", 120000)
    print(N, "roundtrip", s.check(), time.time()-t, flush=True)
    t=time.time()
    lhs = sum((e.abs2() for e in x.flat), z3.RealVal(0)) * d.re
    rhs = sum((e.abs2() for e in X.flat), z3.RealVal(0)) * df.re
    s = z3.Solver(); s.add(AX); s.add(d.re>0); s.add(lhs != rhs); s.set("timeout", 120000)
    print(N, "parseval", s.check(), time.time()-t, flush=True)
    # vacuity: axioms satisfiable
    s = z3.Solver(); s.add(AX); print("axioms", s.check())
