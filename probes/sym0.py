"""Probe: minimal symbolic scalar (z3 Real based, complex pairs) living in numpy object arrays."""
import z3, numpy, fractions, math

def R(x):
    if isinstance(x, z3.ExprRef):
        return x
    if isinstance(x, (int, numpy.integer)):
        return z3.RealVal(int(x))
    if isinstance(x, (float, numpy.floating)):
        f = fractions.Fraction(float(x))
        return z3.RealVal(str(f))
    if isinstance(x, fractions.Fraction):
        return z3.RealVal(str(x))
    raise TypeError(type(x))

class S:
    """complex symbolic number re + i im (im None => real)"""

    def __init__(self, re, im=None):
        self.re = R(re)
        self.im = None if im is None else R(im)
    @staticmethod
    def lift(o):
        if isinstance(o, S): return o
        if isinstance(o, (complex, numpy.complexfloating)):
            return S(o.real, o.imag)
        return S(o)
    def _im(self): return self.im if self.im is not None else z3.RealVal(0)
    def __add__(self, o):
        if isinstance(o, numpy.ndarray): return NotImplemented
        o = S.lift(o)
        if self.im is None and o.im is None: return S(self.re + o.re)
        return S(self.re + o.re, self._im() + o._im())
    __radd__ = __add__
    def __neg__(self):
        return S(-self.re, None if self.im is None else -self.im)
    def __sub__(self, o):
        if isinstance(o, numpy.ndarray): return NotImplemented
        return self + (-S.lift(o))
    def __rsub__(self, o):
        if isinstance(o, numpy.ndarray): return NotImplemented
        return S.lift(o) + (-self)
    def __mul__(self, o):
        if isinstance(o, numpy.ndarray): return NotImplemented
        o = S.lift(o)
        if self.im is None and o.im is None: return S(self.re * o.re)
        a, b, c, d = self.re, self._im(), o.re, o._im()
        return S(a*c - b*d, a*d + b*c)
    __rmul__ = __mul__
    def __truediv__(self, o):
        if isinstance(o, numpy.ndarray): return NotImplemented
        o = S.lift(o)
        if o.im is None:
            return S(self.re / o.re, None if self.im is None else self.im / o.re)
        den = o.re*o.re + o.im*o.im
        return self * S(o.re/den, -o.im/den)
    def __rtruediv__(self, o):
        if isinstance(o, numpy.ndarray): return NotImplemented
        return S.lift(o) / self
    def __pow__(self, n):
        if isinstance(n, S): raise NotImplementedError
        if float(n) == int(n) and int(n) >= 0:
            out = S(1)
            for _ in range(int(n)): out = out * self
            return out
        raise NotImplementedError(n)
    def conjugate(self): return S(self.re, None if self.im is None else -self.im)
    @property
    def real(self): return S(self.re)
    @property
    def imag(self): return S(self._im())
    def abs2(self): return self.re*self.re + self._im()*self._im()
    def __repr__(self): return f"S({self.re},{self.im})"

def symarr(name, shape, cplx=False):
    a = numpy.empty(shape, dtype=object)
    for idx in numpy.ndindex(*shape):
        n = name + "_" + "_".join(map(str, idx))
        a[idx] = S(z3.Real(n + "r"), z3.Real(n + "i")) if cplx else S(z3.Real(n))
    return a

# exact DFT shim for sizes with algebraic twiddles
_ROOTS = {}
def twiddle(N, k):
    # exp(-2 pi i k / N) exactly for N in {1,2,4}; for 3,6,8 uses algebraic consts
    k %= N
    ang = fractions.Fraction(k, N)
    table = {fractions.Fraction(0): (1, 0), fractions.Fraction(1, 4): (0, -1), fractions.Fraction(1, 2): (-1, 0), fractions.Fraction(3, 4): (0, 1)}
    if ang in table:
        return S(*table[ang])
    raise NotImplementedError(ang)

def dft_axis(a, axis, inverse=False):
    a = numpy.asarray(a, dtype=object)
    N = a.shape[axis]
    a = numpy.moveaxis(a, axis, -1)
    out = numpy.empty(a.shape, dtype=object)
    for idx in numpy.ndindex(*a.shape[:-1]):
        for k in range(N):
            acc = S(0, 0)
            for n in range(N):
                w = twiddle(N, (-k*n) if inverse else (k*n))
                acc = acc + w * a[idx + (n,)]
            if inverse:
                acc = acc / N
            out[idx + (k,)] = acc
    return numpy.moveaxis(out, -1, axis)

class FFTShim:
    fftshift = staticmethod(numpy.fft.fftshift)
    ifftshift = staticmethod(numpy.fft.ifftshift)
    @staticmethod
    def fft(a, axis=-1): return dft_axis(a, axis)
    @staticmethod
    def ifft(a, axis=-1): return dft_axis(a, axis, True)
    @staticmethod
    def fft2(a, axes=(-2, -1)):
        return dft_axis(dft_axis(a, axes[0]), axes[1])
    @staticmethod
    def ifft2(a, axes=(-2, -1)):
        return dft_axis(dft_axis(a, axes[0], True), axes[1], True)

class NPProxy:
    def __init__(self): self.fft = FFTShim
    def __getattr__(self, k): return getattr(numpy, k)
