"""Probe v2: scalar = Fraction (concrete, exact) or z3 Real term; complex pairs; constant folding."""
import z3, numpy, fractions
Fr = fractions.Fraction
def conc(x): return isinstance(x, Fr)
def tov(x):
    if isinstance(x, (Fr, z3.ExprRef)): return x
    if isinstance(x, (bool, numpy.bool_)): return Fr(int(x))
    if isinstance(x, (int, numpy.integer)): return Fr(int(x))
    if isinstance(x, (float, numpy.floating)): return Fr(float(x))
    raise TypeError(type(x))
def z(x): return z3.RealVal(str(x)) if conc(x) else x
def vadd(a,b):
    if conc(a) and conc(b): return a+b
    if conc(a) and a==0: return b
    if conc(b) and b==0: return a
    return z(a)+z(b)
def vneg(a): return -a
def vmul(a,b):
    if conc(a) and conc(b): return a*b
    if conc(a):
        if a==0: return Fr(0)
        if a==1: return b
    if conc(b):
        if b==0: return Fr(0)
        if b==1: return a
    return z(a)*z(b)
def vdiv(a,b):
    if conc(b):
        return vmul(a, 1/b)
    if conc(a) and a==0: return Fr(0)
    return z(a)/z(b)
class S:
    def __init__(self, re, im=0):
        self.re = tov(re); self.im = tov(im)
    @staticmethod
    def lift(o):
        if isinstance(o, S): return o
        if isinstance(o, (complex, numpy.complexfloating)): return S(o.real, o.imag)
        return S(o)
    def isreal(self): return conc(self.im) and self.im == 0
    def __add__(self, o):
        if isinstance(o, numpy.ndarray): return NotImplemented
        o = S.lift(o); return S(vadd(self.re,o.re), vadd(self.im,o.im))
    __radd__ = __add__
    def __neg__(self): return S(vneg(self.re), vneg(self.im))
    def __pos__(self): return self
    def __sub__(self, o):
        if isinstance(o, numpy.ndarray): return NotImplemented
        return self + (-S.lift(o))
    def __rsub__(self, o):
        if isinstance(o, numpy.ndarray): return NotImplemented
        return S.lift(o) + (-self)
    def __mul__(self, o):
        if isinstance(o, numpy.ndarray): return NotImplemented
        o = S.lift(o); a,b,c,d = self.re,self.im,o.re,o.im
        return S(vadd(vmul(a,c), vneg(vmul(b,d))), vadd(vmul(a,d), vmul(b,c)))
    __rmul__ = __mul__
    def __truediv__(self, o):
        if isinstance(o, numpy.ndarray): return NotImplemented
        o = S.lift(o)
        if o.isreal(): return S(vdiv(self.re,o.re), vdiv(self.im,o.re))
        den = vadd(vmul(o.re,o.re), vmul(o.im,o.im))
        return self * S(vdiv(o.re,den), vneg(vdiv(o.im,den)))
    def __rtruediv__(self, o):
        if isinstance(o, numpy.ndarray): return NotImplemented
        return S.lift(o) / self
    def __pow__(self, n):
        if isinstance(n, S):
            assert n.isreal() and conc(n.re); n = n.re
        n = Fr(n)
        if n.denominator == 1 and n >= 0:
            out = S(1)
            for _ in range(int(n)): out = out * self
            return out
        raise NotImplementedError(n)
    def conjugate(self): return S(self.re, vneg(self.im))
    @property
    def real(self): return S(self.re)
    @property
    def imag(self): return S(self.im)
    def abs2(self): return vadd(vmul(self.re,self.re), vmul(self.im,self.im))
    def __repr__(self): return f"S({self.re},{self.im})"
def symarr(name, shape, cplx=False):
    a = numpy.empty(shape, dtype=object)
    for idx in numpy.ndindex(*shape):
        n = name + "_" + "_".join(map(str, idx))
        a[idx] = S(z3.Real(n + "r"), z3.Real(n + "i")) if cplx else S(z3.Real(n))
    return a
def twiddle(N, k):
    k %= N; ang = Fr(k, N)
    table = {Fr(0): (1, 0), Fr(1, 4): (0, -1), Fr(1, 2): (-1, 0), Fr(3, 4): (0, 1)}
    return S(*table[ang])
def dft_axis(a, axis, inverse=False):
    a = numpy.asarray(a, dtype=object); N = a.shape[axis]
    a = numpy.moveaxis(a, axis, -1); out = numpy.empty(a.shape, dtype=object)
    for idx in numpy.ndindex(*a.shape[:-1]):
        for k in range(N):
            acc = S(0)
            for n in range(N):
                acc = acc + twiddle(N, (-k*n) if inverse else (k*n)) * a[idx + (n,)]
            out[idx + (k,)] = acc / N if inverse else acc
    return numpy.moveaxis(out, -1, axis)
class FFTShim:
    fftshift = staticmethod(numpy.fft.fftshift); ifftshift = staticmethod(numpy.fft.ifftshift)
    fft = staticmethod(lambda a, axis=-1: dft_axis(a, axis))
    ifft = staticmethod(lambda a, axis=-1: dft_axis(a, axis, True))
    fft2 = staticmethod(lambda a, axes=(-2,-1): dft_axis(dft_axis(a, axes[0]), axes[1]))
    ifft2 = staticmethod(lambda a, axes=(-2,-1): dft_axis(dft_axis(a, axes[0], True), axes[1], True))
