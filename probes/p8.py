import time, z3, numpy, sys
import sym1 as sym0
from sym1 import *
from fork0 import *
AX = []
PARAM = sys.argv[3]
COS = z3.Function('cosU', z3.RealSort(), z3.RealSort()); SIN = z3.Function('sinU', z3.RealSort(), z3.RealSort())
_cache = {}
def s_exp(self):
    assert conc(self.re) and self.re == 0, self.re
    if conc(self.im) and self.im == 0: return S(1)
    th = z3.simplify(z(self.im))
    key = th.sexpr()
    if key not in _cache:
        i = len(_cache)
        if PARAM == "cs":
            c = z3.Real(f"c{i}"); s = z3.Real(f"s{i}"); AX.append(c*c + s*s == 1)
        elif PARAM == "t":
            t = z3.Real(f"t{i}"); q = z3.Real(f"q{i}"); AX.append(q*(1+t*t) == 1); c = (1-t*t)*q; s = 2*t*q
        elif PARAM == "tdiv":
            t = z3.Real(f"t{i}"); c = (1-t*t)/(1+t*t); s = 2*t/(1+t*t)
        _cache[key] = (c, s)
    c, s = _cache[key]
    # exp(re + i im) ; require re == 0 syntactically here
    return S(c, s)
S.exp = s_exp
import aotools.opticalpropagation as op, aotools.fouriertransform as ftm
class NP:
    def __init__(self): self.fft = FFTShim
    def __getattr__(self, k): return getattr(numpy, k)
    def arange(self, *a, **k): return numpy.arange(*a, **k).astype(object)
    def meshgrid(self, *a, **k): return [numpy.array(m, dtype=object) for m in numpy.meshgrid(*a, **k)]
op.numpy = NP(); ftm.numpy = NP()
N = int(sys.argv[1])
U = symarr("u", (N,N), cplx=True)
wvl, d1, d2, zz = z3.Reals("wvl d1 d2 zz")
pre = [wvl > 0, d1 > 0, d2 > 0, zz != 0]

import builtins
op.float = lambda x: x if isinstance(x, S) else builtins.float(x)
t = time.time()
mode = sys.argv[2]
if mode == "contract":
    # assume-guarantee: ft2/ift2 replaced by fresh outputs satisfying their (C09-proved) Parseval contract
    CON = []
    cnt = [0]
    def stub(kind):
        def f(data, delta):
            cnt[0] += 1
            X = symarr(f"{kind}{cnt[0]}", data.shape, cplx=True)
            n = data.shape[-1]
            delta = S.lift(delta)
            pin = z(sum((S(e.abs2()) for e in data.flat), S(0)).re)
            pout = z(sum((S(e.abs2()) for e in X.flat), S(0)).re)
            if kind == "ft":   # sum|X|^2 (1/(n delta))^2 = sum|x|^2 delta^2
                CON.append(pout == pin * (z(delta.re)**4) * n * n)
            else:              # ift2(data, df): sum|x|^2 (1/(n df))^2 = sum |X|^2 df^2
                CON.append(pout == pin * (z(delta.re)**4) * n * n)
            return X
        return f
    class FTM: ft2 = staticmethod(stub("ft")); ift2 = staticmethod(stub("ift"))
    op.fouriertransform = FTM
ctx = Ctx(pre)
res = ctx.run(lambda: op.angularSpectrum(U, S(wvl), S(d1), S(d2), S(zz)))
print("paths", len(res), "exec", round(time.time()-t,2), "unit-modulus axioms", len(AX))
for pc, out in res:
    pin = z(sum((S(e.abs2()) for e in U.flat), S(0)).re) * d1*d1
    pout = z(sum((S(e.abs2()) for e in out.flat), S(0)).re) * d2*d2
    s = z3.Solver(); s.set("timeout", 300000); s.add(pc); s.add(AX)
    if mode == "contract": s.add(CON)
    s.add(pin != pout)
    t = time.time(); print("power", s.check(), round(time.time()-t,2), flush=True)
