import z3, time, sys
F = z3.Float64(); rm = z3.RNE()
d = z3.FP('d', F); 
for L in [3,5,7]:
    Lf = z3.FPVal(float(L), F)
    hstep = z3.fpDiv(rm, d, Lf)
    q = z3.fpDiv(rm, d, hstep)
    s = z3.Solver(); s.set("timeout", 300000)
    s.add(z3.fpGT(d, z3.FPVal(1.0, F)), z3.fpLT(d, z3.FPVal(1e5, F)))
    s.add(z3.fpGT(q, Lf))
    t=time.time(); r = s.check(); print(L, r, round(time.time()-t,1), flush=True)
    if str(r)=='sat':
        m = s.model(); print(m[d], float(eval(str(m.eval(z3.fpToReal(d))).replace('?',''))) if False else m[d])
