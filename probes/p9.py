import time, z3, numpy, sys, builtins
import sym1
from sym1 import *
from fork0 import *
AX = {}
_cache = {}
def s_exp(self):
    assert conc(self.re) and self.re == 0
    if conc(self.im) and self.im == 0: return S(1)
    th = z3.simplify(z(self.im)); key = th.sexpr()
    if key not in _cache:
        i = len(_cache); c = z3.Real(f"c{i}"); s = z3.Real(f"s{i}")
        _cache[key] = (c, s, c*c + s*s == 1)
    c, s, ax = _cache[key]
    out = S(c, s); out.unit_ax = ax
    return out
S.exp = s_exp
import aotools.opticalpropagation as op
class NP:
    def __getattr__(self, k): return getattr(numpy, k)
    def arange(self, *a, **k): return numpy.arange(*a, **k).astype(object)
    def meshgrid(self, *a, **k): return [numpy.array(m, dtype=object) for m in numpy.meshgrid(*a, **k)]
op.numpy = NP()
op.float = lambda x: x if isinstance(x, S) else builtins.float(x)
N = int(sys.argv[1])
U = symarr("u", (N,N), cplx=True)
wvl, d1, d2, zz = z3.Reals("wvl d1 d2 zz")
pre = [wvl > 0, d1 > 0, d2 > 0, zz != 0]
CUTS = []
def stub(kind):
    def f(data, delta):
        X = symarr(f"{kind}{len(CUTS)}", data.shape, cplx=True)
        CUTS.append((kind, data, S.lift(delta), X))
        return X
    return f
class FTM: ft2 = staticmethod(stub("ft")); ift2 = staticmethod(stub("ift"))
op.fouriertransform = FTM
ctx = Ctx(pre)
t0 = time.time()
(pc, out), = ctx.run(lambda: op.angularSpectrum(U, S(wvl), S(d1), S(d2), S(zz)))
allax = [v[2] for v in _cache.values()]
nq = 0; tq = 0
def prove(hyp, goal, name):
    global nq, tq
    s = z3.Solver(); s.set("timeout", 60000); s.add(hyp); s.add(z3.Not(goal)); t=time.time(); r = s.check(); tq += time.time()-t; nq += 1
    if str(r) != "unsat": print("FAILED", name, r)
    return str(r) == "unsat"
# stage lemmas, per element: there is a positive scalar g_stage with |stage_out_n|^2 * g = |stage_in_n|^2
(k1, data1, del1, X1), (k2, data2, del2, X2) = CUTS
mag = z(d2)/z(d1)
ok = True
for idx in numpy.ndindex(N,N):
    ok &= prove(pc+allax, z(data1[idx].abs2())*mag*mag == z(U[idx].abs2()), "stage1")
    ok &= prove(pc+allax, z(data2[idx].abs2()) == z(X1[idx].abs2()), "stage2")
    ok &= prove(pc+allax, z(out[idx].abs2()) == z(X2[idx].abs2()), "stage3")
# chain over abstract powers with C09 contracts: sum|ft2(x,d)|^2 = sum|x|^2 d^4 N^2 ; ift2(X,df): sum|x|^2 = sum|X|^2 df^4 N^2
Pu, Pd1, PX1, Pd2, PX2, Pout = z3.Reals("Pu Pd1 PX1 Pd2 PX2 Pout")
hyp = pc + [Pd1*mag*mag == Pu, PX1 == Pd1 * z(del1.re)**4 * N*N, Pd2 == PX1, PX2 == Pd2 * z(del2.re)**4 * N*N, Pout == PX2]
ok &= prove(hyp, Pout*d2*d2 == Pu*d1*d1, "chain")
print(N, "ok", ok, "queries", nq, "solver_s", round(tq,2), "total", round(time.time()-t0,2))
