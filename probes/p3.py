import time, z3, numpy, sys
def mat(name, r, c, sym=False):
    M = numpy.empty((r,c), dtype=object)
    for i in range(r):
        for j in range(c):
            if sym and j<i: M[i,j] = M[j,i]
            else: M[i,j] = z3.Real(f"{name}{i}_{j}")
    return M
def eqs(A,B): return [A[i] == B[i] for i in numpy.ndindex(*A.shape)]
for n in map(int, sys.argv[2:]):
    m = int(sys.argv[1])
    Czz = mat("z", n, n, sym=True); Cxz = mat("x", m, n); Cxx = mat("xx", m, m, sym=True)
    Inv = mat("v", n, n)
    I = numpy.array([[z3.RealVal(int(i==j)) for j in range(n)] for i in range(n)], dtype=object)
    ax = eqs(Inv.dot(Czz), I) + eqs(Czz.dot(Inv), I)
    A = Cxz.dot(Inv)
    for name, goal in [("A Czz = Cxz", eqs(A.dot(Czz), Cxz)), ("A Czx symmetric", eqs(A.dot(Cxz.T), A.dot(Cxz.T).T))]:
        s = z3.Solver(); s.set("timeout", 120000); s.add(ax); s.add(z3.Not(z3.And(goal)))
        t = time.time(); r = s.check(); print(m, n, name, r, round(time.time()-t,2), flush=True)
