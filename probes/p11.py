import z3, time, sys
B = int(sys.argv[1])
j = z3.Int('j'); n = z3.Int('n'); s = z3.Real('s')
ax = [s >= 0, s*s == 8*(z3.ToReal(j)-1)+1, n == z3.ToInt((-1+s)/2), j>=1, j<=B]
g = z3.And(n*(n+1) < 2*j, 2*j <= (n+1)*(n+2))
for variant in ("plain",):
    sol = z3.Solver(); sol.set("timeout", 120000); sol.add(ax)
    if variant == "hint":
        # lemma instances: squares of the floor bounds (sound consequences of 0 <= 2n+1 <= s < 2n+3)
        u = z3.ToReal(2*n+1)
        sol.add(z3.Implies(z3.And(0 <= u, u <= s), u*u <= s*s), z3.Implies(z3.And(0<=s, s < u+2), s*s < (u+2)*(u+2)))
    sol.add(z3.Not(g))
    t = time.time(); print(B, variant, sol.check(), round(time.time()-t,2), flush=True)
