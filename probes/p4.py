import time, z3, numpy, sys, itertools
def mat(name, r, c, sym=False):
    M = numpy.empty((r,c), dtype=object)
    for i in range(r):
        for j in range(c):
            if sym and j<i: M[i,j] = M[j,i]
            else: M[i,j] = z3.Real(f"{name}{i}_{j}")
    return M
def det(M):
    n = M.shape[0]
    if n == 1: return M[0,0]
    tot = z3.RealVal(0)
    for j in range(n):
        minor = numpy.delete(numpy.delete(M, 0, 0), j, 1)
        tot = tot + ((-1)**j) * M[0,j] * det(minor)
    return tot
def adj(M):
    n = M.shape[0]
    A = numpy.empty((n,n), dtype=object)
    for i in range(n):
        for j in range(n):
            minor = numpy.delete(numpy.delete(M, i, 0), j, 1)
            A[j,i] = ((-1)**(i+j)) * (det(minor) if n>1 else z3.RealVal(1))
    return A
def eqs(A,B): return [A[i] == B[i] for i in numpy.ndindex(*A.shape)]
mode = sys.argv[1]
for n in map(int, sys.argv[3:]):
    m = int(sys.argv[2])
    Czz = mat("z", n, n, sym=True); Cxz = mat("x", m, n)
    d = det(Czz)
    if mode == "div":
        Inv = adj(Czz) / d; ax = [d != 0]
    else:
        dinv = z3.Real("dinv"); ax = [dinv * d == 1]; Inv = adj(Czz) * dinv
    A = Cxz.dot(Inv)
    for name, goal in [("A Czz = Cxz", eqs(A.dot(Czz), Cxz)), ("A Czx symmetric", eqs(A.dot(Cxz.T), A.dot(Cxz.T).T))]:
        s = z3.Solver(); s.set("timeout", 120000); s.add(ax); s.add(z3.Not(z3.And(goal)))
        t = time.time(); r = s.check(); print(mode, m, n, name, r, round(time.time()-t,2), flush=True)
    # mutant: Inv perturbed: use adj of Czz with one entry altered
    Inv2 = Inv.copy(); Inv2[0,1] = Inv2[0,1] + Inv2[0,0]
    A2 = Cxz.dot(Inv2)
    s = z3.Solver(); s.set("timeout", 120000); s.add(ax); s.add(z3.Not(z3.And(eqs(A2.dot(Czz), Cxz))))
    t = time.time(); r = s.check(); print("mutant", n, r, round(time.time()-t,2), flush=True)
    if str(r)=="sat":
        mdl = s.model(); print([ (str(dd), mdl[dd]) for dd in mdl.decls()][:6])
