import z3, time
def zern(j, tag):
    s = z3.Real('s'+tag); ax = [s >= 0, s*s == 8*(z3.ToReal(j)-1)+1]
    n = z3.ToInt((-1 + s)/2)
    p = z3.ToReal(j) - z3.ToReal(n*(n+1))/2
    k = n % 2
    # int() truncation of nonneg value = floor
    m0 = z3.ToInt((p + z3.ToReal(k))/2)*2 - k
    m = z3.If(m0 != 0, z3.If(j % 2 == 0, m0, -m0), m0)
    return n, m, ax
j = z3.Int('j'); B = 10**6
n, m, ax = zern(j, 'a')
absm = z3.If(m>=0, m, -m)
goals = {
 "triangular": z3.And(n*(n+1) < 2*j, 2*j <= (n+1)*(n+2)),
 "range": z3.And(n >= 0, absm <= n, (n - absm) % 2 == 0),
 "sign": z3.Implies(m != 0, (m > 0) == (j % 2 == 0)),
}
for name, g in goals.items():
    s = z3.Solver(); s.set("timeout", 120000); s.add(ax + [j >= 1, j <= B, z3.Not(g)])
    t = time.time(); print(name, s.check(), round(time.time()-t,2), flush=True)
j2 = z3.Int('j2'); n2, m2, ax2 = zern(j2, 'b')
s = z3.Solver(); s.set("timeout", 300000); s.add(ax + ax2 + [j>=1, j<=B, j2>=1, j2<=B, j != j2, n == n2, m == m2])
t = time.time(); print("injective", s.check(), round(time.time()-t,2), flush=True)
