"""Probe C01: run the real CovarianceMatrix.make_covariance_matrix symbolically (REAL mode, UF Bessel)."""
import time, z3, numpy, sys, builtins
import sym1
from sym1 import *
from fork0 import *
Fr = sym1.Fr
# ---- extend S: sqrt with canonical keys, rational powers (UF here), UF kv/gamma, bit-or model
SQ = {}; AX = []
def canon(t):
    return z3.simplify(z(t), som=True, sort_sums=True, flat=True)
def s_sqrt(self):
    assert self.isreal()
    if conc(self.re):
        import math
        r = Fr(math.isqrt(self.re.numerator), 1) / Fr(math.isqrt(self.re.denominator),1)
        if r*r == self.re: return S(r)
        c = z3.RealVal(str(self.re))
    else: c = canon(self.re)
    k = c.sexpr()
    if k not in SQ:
        v = z3.Real(f"sq{len(SQ)}"); SQ[k] = (v, c); AX.extend([v >= 0, v*v == c])
    out = S(SQ[k][0]); out.sq_of = self.re
    return out
S.sqrt = s_sqrt
_pow0 = S.__pow__
POWF = {}
def s_pow(self, n):
    if isinstance(n, S): n = n.re
    n = Fr(n)
    if n.denominator == 1 and n >= 0:
        if n == 2 and hasattr(self, "sq_of"): return S(self.sq_of)
        return _pow0(self, n)
    # rational power: uninterpreted per exponent (probe); positive base assumed
    f = POWF.setdefault(n, z3.Function(f"pow_{n.numerator}_{n.denominator}".replace("-","m"), z3.RealSort(), z3.RealSort()))
    if conc(self.re):
        return S(f(z3.RealVal(str(self.re))))
    return S(f(canon(self.re)))
S.__pow__ = s_pow
S.__rpow__ = lambda self, b: (_ for _ in ()).throw(NotImplementedError)
KV = z3.Function("kv56", z3.RealSort(), z3.RealSort())
class Special:
    @staticmethod
    def gamma(x): return S(z3.Real("Gamma56"))
    @staticmethod
    def kv(nu, x):
        f = numpy.frompyfunc(lambda e: S(KV(canon(S.lift(e).re))), 1, 1)
        return f(x)
class Scipy: special = Special
BOR = z3.Function("bitor32", z3.RealSort(), z3.RealSort(), z3.RealSort())
def s_or(self, o):
    o = S.lift(o)
    if conc(self.re) and self.re == 0: return o
    if conc(o.re) and o.re == 0: return self
    a, b = z(self.re), z(o.re)
    if a.eq(b): return self
    return S(BOR(a, b))
S.__or__ = s_or; S.__ror__ = s_or
# ---- array subclass for astype/view
class SA(numpy.ndarray):
    def __array_finalize__(self, obj): pass
    def astype(self, dt, *a, **k): return self
    def view(self, *a, **k):
        if a and a[0] in ("int32", "float32"): return self
        return super().view(*a, **k)
    def sum(self, *a, **k):
        r = numpy.asarray(self).sum(*a, **k); return r
def obj(a): return numpy.asarray(a, dtype=object).view(SA)
class NP:
    pi = numpy.pi
    def __getattr__(self, k): return getattr(numpy, k)
    def zeros(self, shape, dtype=None):
        a = numpy.empty(shape, dtype=object); a.fill(S(0)); return a.view(SA)
    def array(self, x, dtype=None):
        try:
            return numpy.array(x, dtype=dtype)
        except Exception:
            return numpy.array(x, dtype=object)
    def sqrt(self, x): return numpy.sqrt(obj(x)) if isinstance(x, numpy.ndarray) else S.lift(x).sqrt()

import aotools.turbulence.slopecovariance as sc
sc.numpy = NP(); sc.scipy = Scipy
# absorption of tiny additive regularisers
_add0 = S.__add__
def s_add(self, o):
    if isinstance(o, numpy.ndarray): return NotImplemented
    o2 = S.lift(o)
    if o2.isreal() and conc(o2.re) and o2.re != 0 and abs(o2.re) <= Fr(1, 10**15) and not conc(self.re): return self
    return _add0(self, o)
S.__add__ = s_add; S.__radd__ = s_add
# cut-point: structure function as UF of the squared separation (class ids assigned after solver-proved unification)
ARGS = []   # list of (z3 term for squared separation)
DUF = z3.Function("D2", z3.IntSort(), z3.RealSort())
def D_stub(sep, r0, L0):
    def one(e):
        e = S.lift(e)
        q = e.sq_of if hasattr(e, "sq_of") else (e*e).re
        ARGS.append(z(q) if not conc(q) else z3.RealVal(str(q)))
        return S(z3.Real(f"Dapp{len(ARGS)-1}"))
    if isinstance(sep, numpy.ndarray): return numpy.frompyfunc(one, 1, 1)(sep)
    return one(sep)
sc.structure_function_vk = D_stub
def s_sqrt2(self):
    out = S(z3.Real("unused_sqrt")); out.sq_of = self.re; return out
S.sqrt = s_sqrt2
def Rv(name): return S(z3.Real(name))
def build(masks):
    n = len(masks)
    D = Rv("Dtel"); d = [Rv(f"d{i}") for i in range(n)]
    gsx = [[Rv(f"gx{i}"), Rv(f"gy{i}")] for i in range(n)]
    alt = [Rv(f"H{i}") for i in range(n)]
    if "eq" in sys.argv: d = [d[0]]*n; alt = [alt[0]]*n
    if "coaligned" in sys.argv: gsx = [gsx[0]]*n
    wv = [Rv(f"lam{i}") for i in range(n)]
    h = [Rv("h0")]; r0 = [Rv("r0")]; L0 = [Rv("L0")]
    pre = [z(x.re) > 0 for x in d+wv+r0+L0+h+[D]] + [z(a.re) > z(h[0].re) for a in alt]
    cm = sc.CovarianceMatrix(n, masks, D, d, alt, gsx, wv, 1, h, r0, L0)
    return cm, pre, dict(D=D,d=d,gs=gsx,alt=alt,wv=wv,h=h,r0=r0,L0=L0)
which = sys.argv[1]
masks = [numpy.ones((2,2)), numpy.ones((2,2))] if which=="sym" else [numpy.array([[1,1],[1,0]])]
cm, pre, P = build(masks)
t0 = time.time()
ctx = Ctx(pre)
res = ctx.run(lambda: cm.make_covariance_matrix())
pc, M = res[0]
ncode = len(ARGS)
print("paths", len(res), "exec s", round(time.time()-t0,2), "D applications by code", ncode, flush=True)
def oracle_entries(masks, P, centre_sign=-1):
    n = len(masks); ent = []; h = P["h"][0]
    for w in range(n):
        idx = numpy.array(numpy.where(masks[w]==1)).T
        sf = 1 - h/P["alt"][w]; dd = P["d"][w]*sf
        for ax in (0,1):
            for (i0,i1) in idx:
                p = [ (int(i0)*P["d"][w] - P["D"]/2. + centre_sign*P["d"][w]/2.)*sf + P["gs"][w][0]*S(numpy.pi)/180/3600*h,
                      (int(i1)*P["d"][w] - P["D"]/2. + centre_sign*P["d"][w]/2.)*sf + P["gs"][w][1]*S(numpy.pi)/180/3600*h ]
                ent.append((w, ax, p, dd))
    return ent
ent = oracle_entries(masks, P)
def Dfun(v):
    q = v[0]*v[0] + v[1]*v[1]
    e = S(0); e.sq_of = q.re
    return D_stub(e, None, None)
def oracle(i, j):
    wi, ai, pi, di = ent[i]; wj, aj, pj, dj = ent[j]
    e = lambda ax: [S(1) if ax==0 else S(0), S(1) if ax==1 else S(0)]
    ei, ej = e(ai), e(aj)
    a = [pi[k] + di/2*ei[k] for k in (0,1)]; b = [pi[k] - di/2*ei[k] for k in (0,1)]
    c = [pj[k] + dj/2*ej[k] for k in (0,1)]; d_ = [pj[k] - dj/2*ej[k] for k in (0,1)]
    sub = lambda u, v: [u[0]-v[0], u[1]-v[1]]
    cov = (Dfun(sub(a,d_)) + Dfun(sub(b,c)) - Dfun(sub(a,c)) - Dfun(sub(b,d_))) * 0.5
    return cov * P["wv"][wi] * P["wv"][wj] / (4*numpy.pi**2 * di * dj)
def apps_in(t):
    out = set()
    def walk(e):
        if z3.is_const(e) and e.decl().name().startswith("Dapp"): out.add(int(e.decl().name()[4:]))
        for ch in e.children(): walk(ch)
    walk(t); return out
nq = 0; tq = 0
def prove(hyp, goal):
    global nq, tq
    s = z3.Solver(); s.set("timeout", 60000); s.add(hyp); s.add(z3.Not(goal)); t=time.time(); r = s.check(); tq += time.time()-t; nq += 1
    return str(r)
n = M.shape[0]
tests = [(i,j) for i in range(n) for j in range(n)] if "all" in sys.argv else ([(8,0),(8,1),(12,4),(12,0),(8,4),(9,6),(0,8),(4,12),(0,12),(4,8)] if which=="sym" else [(1,0),(3,0),(0,3),(4,1),(2,4),(4,2)])
bad = []
for (i,j) in tests:
    o = oracle(i,j)
    lhs, rhs = z(M[i,j].re), z(o.re)
    A1, A2 = sorted(apps_in(lhs)), sorted(apps_in(rhs))
    # step 1: unify D arguments by solver-proved equalities
    cls = {}; reps = []
    for k in A1 + A2:
        for r in reps:
            if prove(pc, ARGS[k] == ARGS[r]) == "unsat": cls[k] = r; break
        else: reps.append(k); cls[k] = k
    # step 2: final query with class representatives substituted
    sub = [(z3.Real(f"Dapp{k}"), z3.Real(f"Dapp{cls[k]}")) for k in A1 + A2]
    lhs2 = z3.substitute(lhs, *sub); rhs2 = z3.substitute(rhs, *sub)
    # resolve bit-or mirror: idempotent on solver-equal operands
    def resolve(e):
        if z3.is_app(e) and e.decl().name() == "bitor32":
            a, b = resolve(e.arg(0)), resolve(e.arg(1))
            if prove(pc, a == b) == "unsat": return a
            return BOR(a, b)
        if z3.is_app(e) and e.num_args() > 0:
            return e.decl()(*[resolve(c) for c in e.children()])
        return e
    lhs2 = resolve(lhs2)
    r = prove(pc, lhs2 == rhs2)
    if r != "unsat": bad.append((i,j,r))
import collections; print("fail blocks (rowblock,colblock):", dict(collections.Counter((i//4, j//4) for i,j,_ in bad)) if n==16 else ""); print("entries checked", len(tests), "not equal to oracle:", bad[:12], "…" if len(bad)>12 else "", "queries", nq, "solver s", round(tq,1), "wall", round(time.time()-t0,1))
