import time, z3, numpy, importlib
from sym0 import *
import aotools.fouriertransform as ftm
ftm.numpy = NPProxy()
for N in (2,4):
    x = symarr("x", (N,N), cplx=True)
    d = S(z3.Real("delta"))
    t=time.time()
    X = ftm.ft2(x, d)
    df = 1/(d*N)
    y = ftm.ift2(X, df)
    s = z3.Solver()
    s.add(d.re > 0)
    # negated property: some element differs
    diffs = []
    for idx in numpy.ndindex(N,N):
        diffs.append(y[idx].re != x[idx].re); diffs.append(y[idx]._im() != x[idx]._im())
    s.add(z3.Or(diffs))
    print(N, "roundtrip", s.check(), time.time()-t)
    # parseval
    t=time.time()
    lhs = sum((e.abs2() for e in x.flat), z3.RealVal(0)) * d.re*d.re
    rhs = sum((e.abs2() for e in X.flat), z3.RealVal(0)) * df.re*df.re
    s = z3.Solver(); s.add(d.re>0); s.add(lhs != rhs)
    print(N, "parseval", s.check(), time.time()-t)
    # mutated: ift2 using fftshift instead of ifftshift is same for even N; mutate scale
    s = z3.Solver(); s.add(d.re>0)
    y2 = ftm.ift2(X, 1/(d*(N+1)))
    s.add(z3.Or([y2[i].re != x[i].re for i in numpy.ndindex(N,N)]))
    r = s.check(); print("mutant", r, time.time()-t)
