"""Probe C04: real PhaseScreenVonKarman/Kolmogorov construction + add_row, symbolic."""
import time, z3, numpy, sys, builtins, itertools
import sym1
from sym1 import *
from fork0 import *
Fr = sym1.Fr
_add0 = S.__add__
def s_add(self, o):
    if isinstance(o, numpy.ndarray): return NotImplemented
    o2 = S.lift(o)
    if o2.isreal() and conc(o2.re) and o2.re != 0 and abs(o2.re) <= Fr(1, 10**15) and not conc(self.re): return self
    return _add0(self, o)
S.__add__ = s_add; S.__radd__ = s_add
def s_sqrt(self):
    if conc(self.re):
        import math
        r = Fr(math.isqrt(self.re.numerator)) / Fr(math.isqrt(self.re.denominator))
        assert r*r == self.re, self.re
        return S(r)
    if hasattr(self, "sqrt_is"): return S(self.sqrt_is)
    out = S(z3.Real("opaque_sqrt")); out.sq_of = self.re; return out
S.sqrt = s_sqrt
_pow0 = S.__pow__
def s_pow(self, n):
    if Fr(n) == 2 and hasattr(self, "sq_of"): return S(self.sq_of)
    return _pow0(self, n)
S.__pow__ = s_pow
AX = []; AXINV = []; AXSVD = []
def adjinv(M):
    n = M.shape[0]
    def det(A):
        if A.shape[0] == 1: return A[0,0]
        tot = S(0)
        for j in range(A.shape[0]):
            tot = tot + ((-1)**j) * A[0,j] * det(numpy.delete(numpy.delete(A,0,0), j, 1))
        return tot
    d = det(M); dinv = S(z3.Real(f"dinv{len(AXINV)}")); AXINV.append(z(dinv.re)*z(d.re) == 1)
    out = numpy.empty((n,n), dtype=object)
    for i in range(n):
        for j in range(n):
            minor = numpy.delete(numpy.delete(M, i, 0), j, 1)
            out[j,i] = ((-1)**(i+j)) * (det(minor) if n > 1 else S(1)) * dinv
    return out
class LinAlgError(Exception): pass
class SciLinalg:
    LinAlgError = LinAlgError
    cho_factor = staticmethod(lambda M: M)
    cho_solve = staticmethod(lambda cf, I: adjinv(numpy.asarray(cf, dtype=object)))
SVDREC = []
class NPLinalg:
    @staticmethod
    def svd(M):
        n = M.shape[0]
        U = numpy.empty((n,n), dtype=object); W = numpy.empty(n, dtype=object)
        sig = []
        for i in range(n):
            sg = z3.Real(f"sig{i}"); sig.append(sg); AXSVD.append(sg >= 0)
            w = S(sg*sg); w.sqrt_is = sg; W[i] = w
            for j in range(n): U[i,j] = S(z3.Real(f"U{i}_{j}"))
        # axiom U diag(sig^2) U^T = M
        for i in range(n):
            for j in range(n):
                AXSVD.append(z(sum((U[i,k]*W[k]*U[j,k] for k in range(n)), S(0)).re) == z(S.lift(M[i,j]).re))
        SVDREC.append((U, sig, M))
        return U, W, U.T
CARGS = []
def cov_stub(r, r0, L0):
    def one(e):
        e = S.lift(e); q = e.sq_of if hasattr(e, "sq_of") else (e*e).re
        qz = z(q) if not conc(q) else z3.RealVal(str(q))
        for k,(kk,_) in enumerate(CARGS):
            sv = z3.Solver(); sv.add(kk != qz)
            if str(sv.check()) == "unsat": return S(z3.Real(f"c{k}"))
        CARGS.append((qz, q)); return S(z3.Real(f"c{len(CARGS)-1}"))
    return numpy.frompyfunc(one, 1, 1)(r)
class Gen:
    def __init__(self): self.n = 0
    def normal(self, a=0, b=1, size=None):
        out = numpy.empty(size, dtype=object)
        for i in range(size): out[i] = S(z3.Real(f"b{self.n}")); self.n += 1
        return out
class Rand:
    default_rng = staticmethod(lambda seed=None: seed if isinstance(seed, Gen) else Gen())
class NP:
    pi = numpy.pi; linalg = NPLinalg; random = Rand
    def __getattr__(self, k): return getattr(numpy, k)
    def zeros(self, shape, dtype=None):
        a = numpy.empty(shape, dtype=object); a.fill(S(0)); return a
    def float32(self, x): return x
    def identity(self, n): return numpy.identity(n)
import aotools.turbulence.infinitephasescreen as ips
ips.numpy = NP(); ips.linalg = SciLinalg
ips.calc_seperations_fast = ips.calc_seperations_fast.py_func
class Turb: phase_covariance = staticmethod(cov_stub)
ips.turb = Turb
class PS:
    @staticmethod
    def ft_phase_screen(r0, N, delta, L0, l0, seed=None):
        a = numpy.empty((N,N), dtype=object)
        for i in range(N):
            for j in range(N): a[i,j] = S(z3.Real(f"z{i}_{j}"))
        return a
ips.phasescreen = PS
kind, nx, ncol = sys.argv[1], int(sys.argv[2]), int(sys.argv[3])
ps, r0, L0 = S(z3.Real("ps")), S(z3.Real("r0")), S(z3.Real("L0"))
pre = [z(ps.re) > 0, z(r0.re) > 0, z(L0.re) > 0]
t0 = time.time()
scr = ips.PhaseScreenVonKarman(nx, ps, r0, L0, random_seed=None, n_columns=ncol) if kind == "vk" else ips.PhaseScreenKolmogorov(nx, ps, r0, L0, stencil_length_factor=ncol)
print(kind, "nx", nx, "internal", scr.nx_size, "stencil pts", scr.n_stencils, "distinct cov args", len(CARGS), "build s", round(time.time()-t0,2), flush=True)
nq = 0; tq = 0
def prove(goal, name, ax=()):
    global nq, tq
    s = z3.Solver(); s.set("timeout", 120000); s.add(pre); s.add(list(ax)); s.add(z3.Not(goal)); t = time.time(); r = str(s.check()); tq += time.time()-t; nq += 1
    print("  ", name, r, round(time.time()-t,2), flush=True); return r
def eqm(A, B): return z3.And([z(S.lift(A[i]).re) == z(S.lift(B[i]).re) for i in numpy.ndindex(*A.shape)])
A, B = scr.A_mat, scr.B_mat
prove(eqm(A.dot(scr.cov_mat_zz), scr.cov_mat_xz), "A Czz = Cxz", AXINV)
U, sig, Msvd = SVDREC[0]
UWU = numpy.array([[sum((U[i,k]*S(sig[k]*sig[k])*U[j,k] for k in range(len(sig))), S(0)) for j in range(len(sig))] for i in range(len(sig))], dtype=object)
prove(eqm(B.dot(B.T), UWU), "B B^T = U diag(W) U^T (identity, no axioms)")
prove(eqm(A.dot(scr.cov_mat_zz).dot(A.T) + Msvd, scr.cov_mat_xx), "A Czz A^T + [svd argument] = Cxx", AXINV)
# oracle geometry for blocks: squared separations in pixel units
sten = [(i,j) for i in range(scr.stencil.shape[0]) for j in range(scr.stencil.shape[1]) if scr.stencil[i,j] == 1] if kind != "vk" else [(i,j) for i in range(ncol) for j in range(nx)]
X = [(-1, j) for j in range(scr.nx_size)]
pts = sten + X
def oc(p, q):
    d2 = (p[0]-q[0])**2 + (p[1]-q[1])**2
    e = S(0); e.sq_of = (ps*ps*d2).re
    return cov_stub(numpy.array([e], dtype=object), None, None)[0]
O = numpy.empty((len(pts), len(pts)), dtype=object)
for a,p in enumerate(pts):
    for b,q in enumerate(pts): O[a,b] = oc(p,q)
prove(eqm(scr.cov_mat, O), "covariance blocks = oracle geometry")
# row synthesis
before = scr._scrn.copy()
new = scr.add_row()
b = numpy.array([S(z3.Real(f"b{k}")) for k in range(scr.nx_size)], dtype=object)
Z = numpy.array([before[p] for p in sten], dtype=object)
if kind == "vk": ref_row = A.dot(Z) + B.dot(b)
else:
    ref = before[1,1]; ref_row = A.dot(Z - ref) + B.dot(b) + ref
prove(eqm(scr._scrn[0], ref_row), "new row = A Z + B b at stencil coords")
prove(eqm(scr._scrn[1:], before[:scr.stencil_length-1]), "old rows shifted by one")
print("queries", nq, "solver s", round(tq,2), "wall", round(time.time()-t0,2))
