import time, z3, numpy
from fork0 import *
import aotools.functions.pupil as pup
class NP:
    def __getattr__(self, k): return getattr(numpy, k)
    def arange(self, *a, **k): return numpy.arange(*a, **k).astype(object)
    def meshgrid(self, *a, **k): return [numpy.array(m, dtype=object) for m in numpy.meshgrid(*a, **k)]
pup.numpy = NP()
for size in (2,3,4,5):
    r, cx, cy = z3.Reals("r cx cy")
    ctx = Ctx([r >= 0])
    t = time.time()
    res = ctx.run(lambda: pup.circle(S(r), size, (S(cx), S(cy))))
    # oracle per path
    bad = 0; nq = 0
    for pc, C in res:
        conj = []
        for i in range(size):
            for j in range(size):
                x = (j + 0.5) - size/2. ; y = (i+0.5) - size/2.
                inside = (R(x)-cx)*(R(x)-cx) + (R(y)-cy)*(R(y)-cy) <= r*r
                conj.append(inside if C[i,j]==1 else z3.Not(inside))
        s = z3.Solver(); s.add(pc); s.add(z3.Not(z3.And(conj))); nq += 1
        if s.check() != z3.unsat: bad += 1
    print(size, "paths", len(res), "bad", bad, "branch-solver-calls", ctx.nsolver, round(time.time()-t,1), flush=True)
