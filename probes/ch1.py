from aotools.turbulence.infinitephasescreen import find_allowed_size

def check_allowed(nx: int) -> int:
    """
    pre: 1 <= nx <= 70
    post: _ >= nx and _ >= 2 and ((_ - 1) & (_ - 2)) == 0 and (_ == 2 or (_ - 1) // 2 + 1 < nx)
    """
    return find_allowed_size(nx)

def check_allowed_bad(nx: int) -> int:
    """
    pre: 1 <= nx <= 70
    post: _ > nx
    """
    return find_allowed_size(nx)
