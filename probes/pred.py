import numpy as np, aotools, warnings
warnings.simplefilter("ignore")
from aotools.turbulence import slopecovariance as sc
# --- C01 oracle
def oracle(masks, D_tel, diams, gs_alt, gs_pos, wvls, alts, r0s, L0s, centre_sign=-1):
    n_wfs = len(masks); blocks=[]
    slopes=[]  # (wfs, axis, pos(layer), d(layer))
    per_layer=[]
    for l,h in enumerate(alts):
        ent=[]
        for w in range(n_wfs):
            idx = np.array(np.where(masks[w]==1)).T
            pos = idx*diams[w] - D_tel/2. + centre_sign*diams[w]/2.
            sf = (1-h/gs_alt[w]) if gs_alt[w]!=0 else 1
            pos = pos*sf + np.array(gs_pos[w])*np.pi/180/3600*h
            d = diams[w]*sf
            for ax in (0,1):
                for p in pos: ent.append((w,ax,p,d))
        per_layer.append(ent)
    n = len(per_layer[0]); M = np.zeros((n,n))
    for l,ent in enumerate(per_layer):
        D = lambda v: sc.structure_function_vk(np.sqrt((v**2).sum())+0, r0s[l], L0s[l]) if (v**2).sum()>0 else 0.0
        for i,(wi,ai,pi,di) in enumerate(ent):
            for j,(wj,aj,pj,dj) in enumerate(ent):
                ei = np.eye(2)[ai]; ej = np.eye(2)[aj]
                a,b = pi+di/2*ei, pi-di/2*ei; c,d_ = pj+dj/2*ej, pj-dj/2*ej
                cov = 0.5*(D(a-d_)+D(b-c)-D(a-c)-D(b-d_))
                M[i,j] += cov*wvls[wi]*wvls[wj]/(4*np.pi**2*di*dj)
    return M
def run(masks, diams, gs_alt, gs_pos, name):
    n=len(masks); alts=[5000.]; r0s=[0.2]; L0s=[25.]; wv=[5e-7]*n
    cm = aotools.CovarianceMatrix(n, masks, 2.0, diams, gs_alt, gs_pos, wv, 1, alts, r0s, L0s)
    M = cm.make_covariance_matrix().astype(float)
    O = oracle(masks, 2.0, diams, gs_alt, gs_pos, wv, alts, r0s, L0s)
    err = np.abs(M-O)/np.abs(O).max()
    print(name, "max rel err", err.max(), "at", np.unravel_index(err.argmax(), err.shape), "n", M.shape)
sym = np.ones((2,2)); asym = np.array([[1,1],[1,0]])
run([sym,sym],[1.,1.],[0,0],[[0,0],[20,10]],"symmetric masks NGS")
run([asym,asym],[1.,1.],[0,0],[[0,0],[20,10]],"asymmetric masks NGS")
run([sym,sym],[1.,1.],[90000,0],[[0,0],[20,10]],"LGS+NGS mix")
run([sym,sym],[1.,1.],[90000,90000],[[0,0],[20,10]],"LGS+LGS")
# --- C09
x = np.random.rand(8); d=0.1
print("irft(rft) ratio", (aotools.fouriertransform.irft(aotools.fouriertransform.rft(x,d),1/(8*d))/x)[:3])
for N in (4,5):
    y = np.random.rand(N,N)
    print(N, "pkg ift2(ft2) ok:", np.allclose(aotools.ift2(aotools.ft2(y,d),1/(N*d)), y), "module:", np.allclose(aotools.fouriertransform.ift2(aotools.fouriertransform.ft2(y,d),1/(N*d)), y))
# --- C19
s = np.random.randn(3,8,5)
t,_ = aotools.calc_slope_temporalps(s); t2,_ = aotools.calc_slope_temporalps(2*s); print("tps amplitude ratio", (t2/t).ravel()[:2])
# --- C18 L=1
try:
    print("optgroup L=1:", aotools.turbulence.profile_compression.optimal_grouping(1,1,np.arange(5.),np.ones(5)))
except Exception as e: print("optgroup L=1 raises", type(e).__name__, e)
# --- C15 stack vs frame
im = np.random.rand(2,4,4)
a = aotools.centre_of_gravity(im.copy(), 0.3); b = np.array([aotools.centre_of_gravity(f.copy(),0.3) for f in im]).T
print("cog stack vs frame equal:", np.allclose(a,b))
print("---- oracle validation")
run([sym,sym],[1.,1.],[0,0],[[0,0],[0,0]],"symmetric, both on-axis NGS")
run([sym,sym],[1.,1.],[90000,90000],[[0,0],[0,0]],"symmetric, both on-axis LGS")
run([sym,sym],[1.,1.],[90000,0],[[0,0],[0,0]],"symmetric, on-axis LGS+NGS (unequal projected d)")
run([sym],[1.],[0],[[5,3]],"single wfs")
run([asym],[1.],[0],[[0,0]],"single asym wfs")
