#!/usr/bin/env python3
"""Regenerates /verif/MANIFEST.json from the table below (single source of truth for what is claimed)."""
import json
import os

HERE = os.path.dirname(os.path.dirname(os.path.abspath(__file__)))

TECH = ("symbolic execution of the real AOtools functions on NumPy object arrays of z3 terms "
        "(per-path forking, foreign kernels stubbed by contract); each obligation decided by z3 (unsat = holds "
        "within the stated sizes), cvc5 cross-check of a sample, sat witnesses replayed on the real code")

LEVEL_NOTE = ("Bounded: sizes/unrollings are listed in evidence.coverage.bounds. Trusted base: z3 5.1.0; the engine "
              "/verif/symnp (validated per run against the real functions on concrete inputs: "
              "traces_validated_against_impl); stubs listed in evidence.assumptions; REAL mode = exact real "
              "arithmetic, floating-point rounding outside the claim.")

CLAIMED = {
    # id: (design section, claim text, extra note)
    "C01": ("3 C01", "structure of the slope covariance matrix: every entry equals the independently written covariance of the two finite-difference "
            "slopes at the geometrically projected sub-aperture positions, summed over layers, ordered x then y per sensor - for fully symbolic "
            "geometry (telescope and sub-aperture diameters, guide-star offsets, LGS/NGS altitudes, wavelengths, layer altitude/r0/L0) and concrete "
            "0/1 masks incl. asymmetric ones and unequal counts (1-2 sensors, <=4 sub-apertures, 1-2 layers quick; 3 sensors, 3x3 masks thorough); "
            "symmetry (entry by entry incl. the bit-OR mirror), additivity over layers, r0^(-5/3) scaling of the real structure function with "
            "entries linear in D and r0-free coefficients, bilinearity in the two wavelengths. NOT claimed: positive semi-definiteness as a "
            "separate fact (it is a consequence of every entry being a covariance), float32 rounding",
            "structure_function_vk is a cut-point (arbitrary function of squared separation, r0, L0); arguments merged only by solver-proved equalities."),
    "C02": ("3 C02", "normal equations R C_off,off = C_on,off entry by entry for a fully symbolic symmetric covariance matrix (off-axis slopes <= 4 "
            "quick / 6 thorough) under det != 0; duplicate on-axis sensor => R = [I 0]; the method wrapper uses n_subaps[0] and the current matrix for "
            "any sequence of requests; end-to-end through the real, symbolically executed covariance builder for a duplicated sensor "
            "(3 sensors x 1 sub-aperture, 2 sensors x row mask); for svd_conditioning > 0 (symbolic): exactly one pseudo-inverse is taken, of C_off,off, "
            "with the user's conditioning as the RELATIVE singular-value threshold (numpy's rcond / rtol) and no absolute one, and R = C_on,off . that "
            "pseudo-inverse (the truncated SVD itself is an opaque function); an INTEGER-typed covariance matrix gives the reconstructor of the same values in float64; "
            "sensors with different sub-aperture counts are partitioned at the on-axis sensor's count. NOT claimed: singular matrices at conditioning 0, what LAPACK's truncated SVD returns",
            "pinv(rcond=0) = adjugate*dinv with dinv*det == 1; optimality from the normal equations is the textbook step."),
    "C03": ("3 C03", "EUF mode (floating-point operations uninterpreted => term identity = bit identity): the multi-process build is the same term "
            "array as the single-process build for every explored execution order of the per-pair tasks (all permutations up to 4 tasks, "
            "a rotation/swap/reversal family beyond; chunked completion for imap_unordered), for 2-4 sensors (5 thorough), 1-2 layers, LGS/NGS "
            "mixes; rebuilding on one object with the thread count toggled (programs of up to 3 builds) returns the same terms",
            "multiprocessing.Pool assumed to meet its documented ordering contract; replay uses a controlled pool executing the witness schedule and the real Pool."),
    "C04": ("3 C04", "(the row law is replayed from the witness's screen state, also magnified) for both screen variants with pixel_scale, r0, L0, screen contents and innovation symbolic: the covariance blocks equal "
            "c(true pixel separation) for exactly the stencil points add_row reads and the new row at row -1 (sizes incl. requested sizes that are "
            "not 2^n+1, up to internal 9 quick / 17 thorough); A Cov_zz = Cov_xz; A Cov_zz A^T + B B^T = Cov_xx through the SVD cut-point lemma chain "
            "(stencils up to 7 points quick / 8 thorough, direct cross-check up to 6); add_row() returns A Z + B b (Fried: relative to the reference "
            "pixel) with b the generator's next nx draws; Fried: adding a constant shifts the row by it; the same for a second instance built after "
            "one with another r0. NOT claimed: stationarity as such (standard consequence for Gaussian vectors), Cholesky failure, float32 cast",
            "phase_covariance is a cut-point; Cholesky inverse = adjugate*dinv; SVD by its factorisation contract."),
    "C05": ("3 C05", "one inductive step from an arbitrary (symbolic) screen state, repeated 2 (quick) / 3 (thorough) times - and histories of 5-9 steps, longer than the "
            "internal working length, at nx = 2, 3 - for both variants and requested "
            "sizes whose internal Fried size differs (2,3,4,6 quick; up to 10 thorough): exposed screen stays N x N, rows 1.. are the previous exposed "
            "screen shifted by one, row 0 is A Z + B b, add_row() returns the exposed screen, exactly nx draws are consumed, nothing else changes; "
            "reading .scrn / repr() changes no attribute, no pixel and not the stream; find_allowed_size = least 2^n+1 >= nx for a symbolic integer "
            "nx <= 300 quick / 4096 thorough (own explorer, all paths) and by CrossHair; the theoretical covariance is a fixed point of the vK "
            "recursion (C04 identities). NOT claimed: finiteness of values, stability and uniqueness of the stationary covariance (spectral radius)",
            "initial screen and covariance function are cut-points; A is an opaque matrix for the shift/shape obligations."),
    "C06": ("3 C06", "(the caller edits the first reproduction in place before asking again: a memoised screen handed out by reference shows) term identity (=> bit identity) of seeded ft_phase_screen, ft_sh_phase_screen and both infinite screens incl. two added rows, with a "
            "symbolic integer seed and symbolic parameters: the result after a history of interleaved operations (other instances with other or the "
            "same seed, rows added on other instances - also BETWEEN the rows of the screen under test (live other objects) -, numpy.random.seed / "
            "global draws, FFT screens with other inner scale; programs of length <= 2 quick / all pairs + triples thorough) equals the result in a history-free process, and a second reproduction after more interleaving "
            "equals the first; each history runs in its own process; odd grid sizes (N = 3) included. Different seeds never select the same random "
            "stream (integer-typed symbolic seeds), unseeded calls read disjoint draws - also when NumPy's global state was reset to the same value before each",
            "stream model of numpy.random (documented seeding semantics, randint = a value of the global stream); N = 2, 3 grids; opaque content-named linear-algebra results."),
    "C07": ("3 C07", "ft_phase_screen with r0, L0, l0, delta symbolic and the draws injected through `seed`: linear and homogeneous in the draws "
            "(zero mean), real; the exact ensemble covariance sum_k U_k(p)U_k(q) (unit-draw responses of the real code) equals the inverse DFT sum of "
            "0.023 r0^(-5/3) exp(-(f/fm)^2)(f^2+1/L0^2)^(-11/6) on the code's frequency grid with DC removed, for every pixel pair; variance independent "
            "of position; amplitude ~ r0^(-5/6) for fixed draws (lemma chain at the algebraic power and the square roots); sub-harmonic variant: low "
            "part zero-mean over the grid, reads draws disjoint from the high-frequency ones for Generator / integer / None seeds, whole screen ~ "
            "r0^(-5/6); N = 2 quick, N = 4 thorough. NOT claimed: convergence to the analytic structure function, 'closer at large separations'",
            "exp and the 11/6 power are uninterpreted positive functions keyed by their canonical argument; odd N outside."),
    "C08": ("3 C08", "algebraic part only, on every path of the functions with r, r0, L0 symbolic: the slope-covariance and Karhunen-Loeve copies of the von "
            "Karman structure function are the same function; phase_covariance and structure_function_vk equal their published formulas (to 1e-9), "
            "phase_covariance(0) equals the zero-separation variance (under the assumed small-argument limit of K_{5/6}), and the two formulas satisfy "
            "D = 2(B(0)-B(r)) to 2e-3 of the saturation value (lemma chain over algebraic powers of 2 and pi and enclosed Gamma constants); saturation "
            "constant 2*0.0863 to 1e-3; Kolmogorov copies agree (6.88 / 6.8839), Yao expansion within [0.97,1.01] for r <= 1e-6 L; exact r0^(-5/3) scaling "
            "of every copy; both screen generators take the square root of the same spectrum; every closed form returns for an INTEGER-typed array of separations "
            "what it returns for the same values in float64, and acts element-wise on separation arrays of any shape (2x2, 1x2, 2x3, 2x1x2). NOT claimed: monotonicity, Hankel-transform relation, "
            "positive semi-definiteness for arbitrary point sets (analytic facts about K_{5/6})",
            "kv uninterpreted and positive; Gamma constants enclosed within 1e-12 of libm; D >= 0 assumed in the formula-consistency lemma."),
    "C09": ("4 C09", "(transform of a REAL array = transform of the same values given as a complex array, 1-D N 3-4, 2-D 3x3, 2x3 quick) ft/ift/ft2/ift2 and the real variants, as exported by the module and by the package, are inverse "
            "pairs, linear, satisfy Parseval, equal the centred DFT (origin at the centre sample) and obey the shift "
            "theorem for every complex input and every delta>0 at each listed size (1-D N<=5 quick / <=8 thorough, "
            "2-D N<=4 / <=6, batch shapes); decided per size by z3 over exact algebraic twiddles; the transform of a boolean- or integer-typed 0/1 array "
            "equals the transform of the same values in float64; the inverse real transforms leave the spectrum they are given unchanged", ""),
    "C10": ("4 C10", "angularSpectrum (any magnification), oneStepFresnel, twoStepFresnel (both the m!=1 and the ZeroDivisionError m==1 path), "
            "lensAgainst conserve sum|U|^2 d^2 (per-element unit-modulus lemmas with the physically expected stage scalars, then a chain "
            "query in the parameters) and are linear (linear-combination cut), for every complex field and every wavelength/spacing/distance "
            "of either sign at N in {2,4,8} quick / up to 16 thorough; power conserved in every call of a history of 11 calls whose geometries differ "
            "in one parameter at a time (nothing carried over from an earlier geometry); a REAL-typed input field (float64 quick; bool, int64, float32 thorough) propagates like the same values as "
            "complex128; ft2/ift2 replaced by their C09 contract; monolithic exact-DFT cross-check at N=2", ""),
    "C11": ("4 C11", "(value-dependent branches inside the propagators are followed: each case is re-run per path condition, <= 12 combinations) algebraic part only: z=0 returns the input; unit-magnification group law P(z2)oP(z1)=P(z1+z2), P(-z)oP(z)=id; "
            "m then 1/m recovers the input; lensAgainst = oneStepFresnel(U*lens); twoStepFresnel = two chained oneStepFresnel through z/(1-m) "
            "with output spacing d2; each also after a history of other calls; N in {2,4} quick / up to 8 thorough; "
            "NOT claimed: angular-spectrum vs Fresnel agreement, Gaussian beam, Airy pattern (not algebraic identities)",
            "Angle relations between chirp phases are each proved by the solver before use; ft2/ift2 contract from C09."),
    "C12": ("4 C12", "zernIndex with a symbolic integer j (1..300 quick / 1..2000 thorough, every path of the sqrt/int arithmetic): triangular bound, "
            "Noll row position, parity/sign rule, |m|<=n, n-|m| even, injectivity, totality, fresh result lists; phaseFromZernikes with symbolic "
            "coefficients = that linear combination; zernikeArray(list) = slices of zernikeArray(count); modes vanish outside the inscribed pupil; "
            "p2v and rms normalisations on concrete grids; makegammas: d/dx and d/dy of every Noll-normalised mode equal sum_j gamma[i,j] Z_j as a "
            "polynomial identity in symbolic (x, y) over algebraic square roots (radial orders <= 3 quick / 5 thorough); zernikeRadialFunc(n, m, r) for "
            "symbolic r in [0,1] = the radial polynomial with exact rational coefficients for every (n, m) up to n = 30 quick / 60 thorough "
            "(integer tables stay native int64 in the engine: a wrapping factorial table is seen). NOT claimed: orthonormality "
            "as the grid is refined (limit), float rounding of sqrt for j > 2^50",
            "mode grids are concrete (trigonometric values evaluated in floating point as the code does); gamma entries are exact algebraic numbers (float32 storage outside)."),
    "C13": ("4 C13", "the part of the Karhunen-Loeve construction that is decidable once numpy.linalg.eigh is replaced by its CONTRACT (ascending "
            "eigenvalues, V^T V = I, M V = V diag(w); fresh symbols - not by the property): gkl_fcom on a SYMBOLIC kernel array (symmetric, every "
            "entry a free real; nr = 2 radial points with 3 azimuthal orders quick, 4 orders thorough; nr = 3 does not finish within the hour) and symbolic obscuration, on every path of "
            "the eigenvalue-order decisions: returned variances non-increasing; orders >= 1 come as consecutive cos/sin pairs (azimuthal indices "
            "2m-1, 2m) with one variance and one radial function; no larger eigenvalue of the orders used is left out; radial functions "
            "orthonormal with the normalisation that makes the polar functions orthonormal over the pupil; every returned (variance, function) is "
            "an eigenpair of the kernel of ITS azimuthal order (piston-filtered relation for order 0); order-0 functions are piston free. "
            "gkl_azimuthal = 1 / cos / sin(m theta) rows, mutually orthogonal with mean squares 1, 1/2 (concrete grids); gkl_radii = equal-area grid "
            "for symbolic ri; piston_orth orthogonal with a constant last column. Cartesian part: pcgeom for symbolic ri (ncp 4-6 quick, up to 9 thorough, "
            "ncmar 0-2; setpincs cut away) on every path: aperture = indicator of pixel centres in the annulus on the centred grid, cr / cp = each "
            "pixel centre's radial index in the equal-area grid / azimuthal index, clipped into the grid; pol2car with map_coordinates "
            "uninterpreted: masked = resampled inside the annulus and exactly 0 outside, unmasked = resampled everywhere, resampler asked for "
            "(cr, cp), order 1. NOT claimed: that the kernel handed to eigh is the azimuthal "
            "transform of the Kolmogorov structure function (discretisation accuracy), positivity of the variances and tip/tilt first (facts "
            "about that kernel), the interpolation arithmetic inside scipy.ndimage.map_coordinates",
            "eigh by contract; kernel eigenvalues assumed positive (used for the piston clause only); paths that exhaust the available azimuthal orders are not examined."),
    "C14": ("5 C14", "circle(r,n,c,origin) is exactly the indicator of pixel centres within r of c on every feasible path (symbolic r>=0 and centre, "
            "both origins, n<=4 quick / <=6 thorough: boundary-touching, half-pixel and off-array centres included) - nesting, symmetry and "
            "integer-shift translation are consequences; findActiveSubaps returns exactly the row-major cells with mean>=threshold with "
            "fills=means for symbolic masks/thresholds incl. sizes that are not multiples of the count; computeFillFactor reproduces the fills "
            "when the size is a multiple; make_subaps_2d scatter/read-back identity for every 0/1 mask given as an int, bool or float array", "area -> pi r^2 is a limit statement, outside."),
    "C15": ("5 C15", "on symbolic non-negative images, every feasible path of the threshold / sort branches: single bright pixel -> (x,y) for "
            "centre_of_gravity and brightest_pixel; invariance under multiplication by k>0 (2-D and stack paths, with and without threshold); "
            "shift equivariance for content away from the border; stack = each frame alone (as a 1-frame stack; as a 2-D image it is a recorded "
            "finding for thresholds); quad-cell mirror antisymmetry; correlation centroid = array centre + displacement for padding 2 "
            "(non-square frames included) and for a single pixel at padding 1; sizes 2x2..4x4, stacks of 2", "larger frames outside (sort forks as n!)."),
    "C16": ("5 C16", "binImgs = exact n x n block sums and total flux for symbolic images and stacks (shapes up to 6x6 quick / 8x8 thorough); "
            "azimuthal_average: constant -> constant, every ring value within [min,max]; encircled_energy on symbolic non-negative images: curve "
            "starts at 0, never decreases, never exceeds 1, reported diameter = grid point closest to the requested (symbolic) fraction, for the "
            "default and for pixel-centred / off-centre centres; zoom_rbs under the interpolation contract of RectBivariateSpline: unchanged size "
            "returns the input, passes through the old samples, complex = real + i imag with the same orders (orders 1,3,5). NOT claimed: "
            "polynomial exactness and the interp2d-based zoom (FITPACK / removed from SciPy)",
            "RectBivariateSpline is an uninterpreted interpolating function (contract stub); radii linspace(...)**1.9 evaluated in floating point."),
    "C18": ("5 C18", "equivalent_layers on symbolic profiles (strictly increasing heights, positive strengths/winds; N<=5, L<=3 quick, N<=6, L<=4 thorough), "
            "every path with non-empty slabs: exactly L layers, total Cn2, 5/3 height moment and 5/3 wind moment conserved, strengths >= 0; the slab-edge "
            "kernel found in the source has exactly L edges (linspace by construction; numpy.arange((hmax-hmin)/L) decided in Float64 for every double "
            "range); optimal_grouping with the random restart = ANY sorted distinct split set: exactly L layers (L=1 included), total Cn2, heights are "
            "input heights in increasing order, cost no worse than the equal split (N=3 fully symbolic, N=4..5 irregular concrete heights with "
            "symbolic strengths), also right after a call with another symbolic profile on the same heights (no cost carried over); GCTM's wrapper with "
            "scipy.optimize.minimize replaced by 'returns ANY vector within the bounds it is given': exactly L layers, 2L non-negative variables, the start "
            "carries the input's total Cn2, and the objective handed to the optimiser, evaluated at the optimiser's answer, IS the squared residual of the "
            "first 2L-1 scaled moments of the layers GCTM returns (symbolic scalings). NOT claimed: how small the optimiser makes that residual",
            "numba's _Gjit executed as its Python source; paths with an empty slab (0/0) not examined."),
    "C19": ("5 C19", "calculate_structure_function on symbolic phase: entry j = mean squared difference at lag j*step along axis 0, 0 at lag 0 "
            "(numpy.empty = arbitrary values), ramp -> a^2 (j step)^2, quadratic in amplitude (shapes to 8x8 quick / 12x12 thorough, steps 1-4); "
            "calc_slope_temporalps: mean spectrum = sub-aperture mean of |DFT along frames|^2, quadratic in amplitude, error = std/sqrt(n), "
            "a pure sinusoid peaks at its bin (frames 2-4 quick / 8 thorough, any leading shape; 13 frames - the smallest length that is not a fast FFT "
            "size - with two symbolic amplitudes), on every path of decisions taken on slope values; get_tps_time_axis = k*frame_rate/n for symbolic "
            "frame rate and n <= 9 quick / a range up to 101 thorough (odd n included)",
            "'follows the analytic structure function on generated screens' is statistical - outside."),
    "C20": ("5 C20", "(+ the Karhunen-Loeve structure-function copies; + the same call before and after OTHER calls padded to the same transform size) for 55 public entry points (list in the evidence; foreign-kernel functions named as skipped) on symbolic arrays and every "
            "feasible path: every array argument term-identical after the call (shape, dtype tag, every element; nested list arguments of "
            "CovarianceMatrix included), a second call returns the same terms, results of two calls share no storage and a call made after "
            "the first result was overwritten in place returns the same (memoised arrays are caught), a call with the SAME argument objects "
            "refreshed in place by the caller equals the call on new objects with those contents (identity-keyed caches are caught), batch "
            "results = single-item results; "
            "gkl_fcom argument purity with arbitrary eigh outputs; replays run in a process forked from the pristine state", 
            "symbolic arrays stand for float64/complex128 arrays (numpy.asarray with a matching dtype aliases); float32 inputs are outside."),
    "C17": ("5 C17", "all converters of atmos_conversions and _astronomy: the six inverse pairs (explicit and default wavelength) on every path of the converters "
            "(a guard on an argument's value forks), "
            "composites = compositions, scaling exponents (lambda^(6/5), Cn2^(-3/5), lambda^(-1/5), r0^(-5/3), d^(-1/3)), "
            "single-layer theta0/tau0 = C r0/h with 0.313<C<0.315, a 0-d single layer = the length-1 profile, axis argument = loop over profiles for rank 1-3 arrays and every "
            "axis, magnitude<->flux inverse, 5 mag = x100, proportionality to area/exposure, all 12 bands; for every positive "
            "symbolic argument (algebraic powers y^q=x^p)", "10**x/log10 are uninterpreted with instantiated exp/log axioms; decimal literals read at their decimal value."),
}

NOT_APPLICABLE = {
}

PENDING_REASON = "check not built yet in this session (planned, see DESIGN.md section 6); not claimed until its check exists"


def main():
    ids = [json.loads(l)["id"] for l in open(os.path.join(HERE, "properties.jsonl"))]
    checks = []
    for pid in ids:
        if pid not in CLAIMED:
            continue
        sec, text, note = CLAIMED[pid]
        checks.append(dict(
            property_id=pid,
            quick_cmd="bin/check %s --tier quick" % pid,
            thorough_cmd="bin/check %s --tier thorough" % pid,
            evidence_file="/verif/evidence/%s.json" % pid,
            replay_cmd_template="bin/check %s --replay {path}" % pid,
            engine="symnp",
            level_claimed=dict(category="model_checking", text="bounded symbolic model checking (not a proof): " + text,
                               design_ref="DESIGN.md section " + sec),
            level_note=LEVEL_NOTE + (" " + note if note else ""),
            technique=TECH,
        ))
    na = []
    for pid in ids:
        if pid in CLAIMED:
            continue
        na.append(dict(property_id=pid, reason=NOT_APPLICABLE.get(pid, PENDING_REASON)))
    man = dict(
        version=1,
        setup_cmd="sh bin/setup.sh",
        hooks=dict(guard="AOTOOLS_VERIF", enable="none needed: checks rebind module globals of the unmodified /repo modules at run time; no hook commits exist",
                   baseline_off_cmd="cd /repo && /venv/bin/python -m pytest -ra -q -p no:cacheprovider --timeout=900 --continue-on-collection-errors test",
                   source_commits=[], add_only=True),
        engines=[dict(name="symnp", path="/verif/symnp", serves_properties=sorted(CLAIMED),
                      kind_free_text="symbolic execution of the real Python source on NumPy object arrays of z3 terms; z3 decides every obligation; CrossHair for pure-int code")],
        checks=checks,
        not_applicable=na,
        notes="Exit codes of every check: 0 = all explored obligations held (or only listed known findings), 1 = reproducing unlisted violation, 2 = harness error (no verdict). known_findings.json lists recorded and fixed defects.",
    )
    json.dump(man, open(os.path.join(HERE, "MANIFEST.json"), "w"), indent=1)
    print("MANIFEST.json: %d checks, %d not_applicable" % (len(checks), len(na)))


if __name__ == "__main__":
    main()
