#!/bin/sh
# Build the offline overlay venv /verif/.venv: /venv's python + its site-packages (numpy/scipy/numba as
# the code under test really uses) + z3-solver, cvc5, crosshair-tool from the local wheelhouse.
# Idempotent; safe to call from several checks at once (mkdir lock).
set -e
V=/verif/.venv
HERE=$(cd "$(dirname "$0")/.." && pwd)
V="$HERE/.venv"
if [ -f "$V/.ok" ]; then exit 0; fi
LOCK="$HERE/.venv.lock"
i=0
while ! mkdir "$LOCK" 2>/dev/null; do
  i=$((i+1)); [ $i -gt 600 ] && { echo "setup: lock timeout" >&2; exit 2; }
  sleep 1
  [ -f "$V/.ok" ] && exit 0
done
trap 'rmdir "$LOCK" 2>/dev/null || true' EXIT
if [ -f "$V/.ok" ]; then exit 0; fi
rm -rf "$V"
/venv/bin/python -m venv "$V"
SP=$("$V/bin/python" -c 'import sysconfig;print(sysconfig.get_paths()["purelib"])')
printf '/venv/lib/python3.12/site-packages\n' > "$SP/_base_venv.pth"
PIP_NO_INDEX=1 "$V/bin/python" -m pip install -q --no-index --find-links /opt/veriftools/wheels z3-solver cvc5 crosshair-tool >/dev/null
"$V/bin/python" -c 'import z3, cvc5, crosshair, numpy, scipy; print("setup ok: z3", z3.get_version_string(), "numpy", numpy.__version__)'
touch "$V/.ok"
